package main

// Contract files: Gobra-style structured comments ("//@ ...") in comment-only Go files.

import (
	"fmt"
	"go/ast"
	"go/parser"
	"os"
	"regexp"
	"strconv"
	"strings"
)

type Clause struct {
	Pkg   string // package directive in force (global axioms apply to functions of that package only)
	Kind  string
	Label string
	Expr  ast.Expr
	Src   string
	File  string
	Line  int
	// Reveal: opaque specs that are expanded while this clause is PROVED (`reveal(a, b) expr`); where the clause is
	// assumed afterwards it is assumed in its folded form (an opaque application equals its definition)
	Reveal []string
}

type LoopContract struct {
	Ordinal    int
	Invariants []*Clause
	Decreases  []*Clause
	Unroll     int
	UseEntry   []*Clause // ... assumed when the loop is first reached, before the invariant is checked
	Use        []*Clause // instances of trusted axiom schemata assumed at the loop head
	UseEnd     []*Clause // ... assumed at the end of each iteration (may mention head(e))
	Steps      []*Clause // relations between the head state and the end of one iteration (body_ensures)
	EntryLemmas []*Clause // proved when the loop is first reached, then available to the inv-entry obligations
}

type SpecParam struct {
	Name string
	Type ast.Expr
}

type SpecDef struct {
	Name   string
	Params []SpecParam
	Ret    ast.Expr
	Body   ast.Expr // nil => uninterpreted
	Pkg    string
	Src    string
	Schema bool // a trusted axiom schema: may only be used through `use` clauses; listed as an assumption
	Uses   int
	// Opaque: applications are kept as an uninterpreted application over the arguments and the memories the body
	// reads; the defining equation is supplied only for applications outside any quantifier (ground unfolding).
	Opaque     bool
	opaqueKeys []string
	opaqueSort map[string]string // SMT sort of each memory in opaqueKeys (memories are registered per function)
	opaqueDone bool
}

type FuncContract struct {
	Key        string // pkgname.(recv).name
	Props      []string
	Requires   []*Clause
	Ensures    []*Clause
	AllowDead  []string // cover labels that may be unreachable under this contract (code made dead by a precondition)
	ExitCode   *Clause // condition on the argument `code` of every os.Exit reached (the process status is code mod 256)
	Panics     *Clause // may/must panic exactly when (old state)
	// RestartDec: variant of a `goto L` to the label on the first statement of the body (a restart of the function,
	// treated as a tail call to its own contract): must be non-negative and smaller than at entry
	RestartDec *Clause
	MayPanic   bool
	Effort     int  // solver budget (nominal seconds) for the obligations of this function when larger than the tier's
	Wraps      bool // sized-integer arithmetic of this function may wrap around (defined in Go): modelled, not an obligation
	Assigns    []*Clause
	HasAssigns bool
	Ghosts     []*SpecDef
	Loops      map[int]*LoopContract
	Trusted    bool
	Pure       bool
	NoBody     bool // do not verify the body (only use the contract at call sites); listed as assumption
	ParamNames []string
	ResNames   []string
	Lemmas     []*Clause
	Use        []*Clause // axiom-schema instances assumed at function entry
	UseEnd     []*Clause // ... assumed at each normal return, before the ensures are checked
	Snapshots  map[string]string // name -> "typeswitch 1" etc.: named snapshots of the state before a statement
	PostOrder  []*Clause         // ensures and use_end clauses in file order
	GhostAx    []*Clause // recurrence axioms of uninterpreted ghost functions (must be definitional; listed as assumptions)
	File       string
	Line       int
	Uses       int
}

type Contracts struct {
	Funcs     map[string]*FuncContract
	Specs     map[string]*SpecDef // pkg.name and bare name
	Axioms    []*Clause
	Files     []string
	GhostVars map[string]ast.Expr // ghost global variables: name -> type expression
	GhostPkg  map[string]string
	SymConsts map[string][]string // package -> named constants treated as symbolic (table sizes)
}

func newContracts() *Contracts {
	return &Contracts{Funcs: map[string]*FuncContract{}, Specs: map[string]*SpecDef{}, GhostVars: map[string]ast.Expr{}, GhostPkg: map[string]string{}, SymConsts: map[string][]string{}}
}

var labelRe = regexp.MustCompile(`^\[([A-Za-z0-9_.:#+\-]+)\]\s*`)
var funcHdrRe = regexp.MustCompile(`^func\s+(\S+?)(\(([^)]*)\))?(\s*\(([^)]*)\))?\s*$`)

func (cs *Contracts) load(path string) error {
	data, err := os.ReadFile(path)
	if err != nil {
		return err
	}
	cs.Files = append(cs.Files, path)
	type ll struct {
		text string
		line int
	}
	var lines []ll
	for i, raw := range strings.Split(string(data), "\n") {
		t := strings.TrimSpace(raw)
		if !strings.HasPrefix(t, "//@") {
			continue
		}
		t = strings.TrimSpace(t[3:])
		if t == "" || strings.HasPrefix(t, "#") {
			continue
		}
		if strings.HasPrefix(t, "|") {
			if len(lines) == 0 {
				return fmt.Errorf("%s:%d: continuation without clause", path, i+1)
			}
			lines[len(lines)-1].text += " " + strings.TrimSpace(t[1:])
			continue
		}
		lines = append(lines, ll{t, i + 1})
	}
	pkg := ""
	var cur *FuncContract
	var loop *LoopContract
	for _, l := range lines {
		word, rest := l.text, ""
		if i := strings.IndexAny(l.text, " \t"); i >= 0 {
			word, rest = l.text[:i], strings.TrimSpace(l.text[i+1:])
		}
		mkClause := func(kind string) (*Clause, error) {
			c := &Clause{Kind: kind, File: path, Line: l.line, Pkg: pkg}
			if m := labelRe.FindStringSubmatch(rest); m != nil {
				c.Label = m[1]
				rest = rest[len(m[0]):]
			}
			if strings.HasPrefix(rest, "reveal(") {
				if i := strings.Index(rest, ")"); i > 0 {
					for _, nm := range strings.Split(rest[len("reveal("):i], ",") {
						c.Reveal = append(c.Reveal, strings.TrimSpace(nm))
					}
					rest = strings.TrimSpace(rest[i+1:])
				}
			}
			c.Src = rest
			e, err := parser.ParseExpr(rest)
			if err != nil {
				return nil, fmt.Errorf("%s:%d: %v in %q", path, l.line, err, rest)
			}
			c.Expr = e
			return c, nil
		}
		switch word {
		case "package":
			pkg = rest
			cur, loop = nil, nil
		case "symconst":
			cs.SymConsts[pkg] = append(cs.SymConsts[pkg], strings.Fields(rest)...)
		case "ghostvar":
			f := strings.Fields(rest)
			if len(f) != 2 {
				return fmt.Errorf("%s:%d: ghostvar NAME TYPE", path, l.line)
			}
			te, err := parser.ParseExpr(f[1])
			if err != nil {
				return fmt.Errorf("%s:%d: %v", path, l.line, err)
			}
			cs.GhostVars[f[0]] = te
			cs.GhostPkg[f[0]] = pkg
		case "spec", "specfun", "axiomschema", "opaque":
			isOpaque := false
			if word == "opaque" {
				if !strings.HasPrefix(rest, "spec ") {
					return fmt.Errorf("%s:%d: opaque must be followed by spec", path, l.line)
				}
				rest = strings.TrimSpace(strings.TrimPrefix(rest, "spec "))
				isOpaque = true
			}
			sd, err := parseSpecDef(rest, word == "specfun")
			if err != nil {
				return fmt.Errorf("%s:%d: %v", path, l.line, err)
			}
			sd.Schema = word == "axiomschema"
			sd.Opaque = isOpaque
			sd.Pkg = pkg
			cs.Specs[sd.Name] = sd
			cur, loop = nil, nil
		case "axiom":
			c, err := mkClause("axiom")
			if err != nil {
				return err
			}
			cs.Axioms = append(cs.Axioms, c)
		case "func":
			m := funcHdrRe.FindStringSubmatch(l.text)
			if m == nil {
				return fmt.Errorf("%s:%d: bad func header %q", path, l.line, l.text)
			}
			key := m[1]
			// (recv).name or bare name: prefix with the package
			if strings.HasPrefix(key, "(") || !strings.Contains(key, ".") {
				key = pkg + "." + key
			}
			cur = &FuncContract{Key: key, Loops: map[int]*LoopContract{}, File: path, Line: l.line}
			if m[2] != "" {
				cur.ParamNames = splitNames(m[3])
			}
			if m[4] != "" {
				cur.ResNames = splitNames(m[5])
			}
			if _, dup := cs.Funcs[key]; dup {
				return fmt.Errorf("%s:%d: duplicate contract for %s", path, l.line, key)
			}
			cs.Funcs[key] = cur
			loop = nil
		case "loop":
			if cur == nil {
				return fmt.Errorf("%s:%d: loop outside func", path, l.line)
			}
			n, err := strconv.Atoi(rest)
			if err != nil {
				return fmt.Errorf("%s:%d: bad loop ordinal", path, l.line)
			}
			loop = &LoopContract{Ordinal: n}
			cur.Loops[n] = loop
		case "prop":
			if cur == nil {
				return fmt.Errorf("%s:%d: prop outside func", path, l.line)
			}
			cur.Props = append(cur.Props, strings.Fields(strings.ReplaceAll(rest, ",", " "))...)
		case "trusted":
			cur.Trusted = true
			cur.NoBody = true
		case "nobody":
			cur.NoBody = true
		case "pure":
			cur.Pure = true
		case "may_panic":
			cur.MayPanic = true
		case "wraps":
			cur.Wraps = true
		case "effort":
			n, err := strconv.Atoi(rest)
			if err != nil || cur == nil {
				return fmt.Errorf("%s:%d: effort N", path, l.line)
			}
			cur.Effort = n
		case "allow_unreachable":
			cur.AllowDead = append(cur.AllowDead, strings.Fields(rest)...)
		case "unroll":
			n, err := strconv.Atoi(rest)
			if err != nil || loop == nil {
				return fmt.Errorf("%s:%d: bad unroll", path, l.line)
			}
			loop.Unroll = n
		case "snapshot":
			f := strings.Fields(rest)
			if cur == nil || len(f) != 3 {
				return fmt.Errorf("%s:%d: snapshot NAME KIND ORDINAL", path, l.line)
			}
			if cur.Snapshots == nil {
				cur.Snapshots = map[string]string{}
			}
			cur.Snapshots[f[1]+" "+f[2]] = f[0]
		case "ghost":
			sd, err := parseSpecDef(rest, false)
			if err != nil {
				return fmt.Errorf("%s:%d: %v", path, l.line, err)
			}
			cur.Ghosts = append(cur.Ghosts, sd)
		case "requires", "ensures", "invariant", "decreases", "assigns", "panics", "lemma", "ghostaxiom", "use", "use_end", "use_entry", "step", "exit_code", "restart_decreases", "entry_lemma":
			if cur == nil {
				return fmt.Errorf("%s:%d: clause outside func", path, l.line)
			}
			if word == "assigns" {
				cur.HasAssigns = true
				if rest == "nothing" || rest == "" {
					continue
				}
				// a comma separated list of lvalues: parse as call args
				e, err := parser.ParseExpr("f(" + rest + ")")
				if err != nil {
					return fmt.Errorf("%s:%d: %v", path, l.line, err)
				}
				for _, a := range e.(*ast.CallExpr).Args {
					cur.Assigns = append(cur.Assigns, &Clause{Kind: "assigns", Expr: a, Src: rest, File: path, Line: l.line})
				}
				continue
			}
			c, err := mkClause(word)
			if err != nil {
				return err
			}
			switch word {
			case "requires":
				cur.Requires = append(cur.Requires, c)
			case "ensures":
				cur.Ensures = append(cur.Ensures, c)
				cur.PostOrder = append(cur.PostOrder, c)
			case "lemma":
				cur.Lemmas = append(cur.Lemmas, c)
			case "ghostaxiom":
				cur.GhostAx = append(cur.GhostAx, c)
			case "use":
				if loop != nil {
					loop.Use = append(loop.Use, c)
				} else {
					cur.Use = append(cur.Use, c)
				}
			case "use_end":
				if loop != nil {
					loop.UseEnd = append(loop.UseEnd, c)
				} else {
					cur.UseEnd = append(cur.UseEnd, c)
					cur.PostOrder = append(cur.PostOrder, c)
				}
			case "use_entry":
				if loop == nil {
					return fmt.Errorf("%s:%d: use_entry outside loop", path, l.line)
				}
				loop.UseEntry = append(loop.UseEntry, c)
			case "entry_lemma":
				if loop == nil {
					return fmt.Errorf("%s:%d: entry_lemma outside loop", path, l.line)
				}
				loop.EntryLemmas = append(loop.EntryLemmas, c)
			case "step":
				if loop == nil {
					return fmt.Errorf("%s:%d: step outside loop", path, l.line)
				}
				loop.Steps = append(loop.Steps, c)
			case "restart_decreases":
				cur.RestartDec = c
			case "panics":
				cur.Panics = c
			case "exit_code":
				cur.ExitCode = c
			case "invariant":
				if loop == nil {
					return fmt.Errorf("%s:%d: invariant outside loop", path, l.line)
				}
				loop.Invariants = append(loop.Invariants, c)
			case "decreases":
				if loop == nil {
					return fmt.Errorf("%s:%d: decreases outside loop", path, l.line)
				}
				loop.Decreases = append(loop.Decreases, c)
			}
		default:
			return fmt.Errorf("%s:%d: unknown directive %q", path, l.line, word)
		}
	}
	return nil
}

func splitNames(s string) []string {
	var out []string
	for _, f := range strings.Split(s, ",") {
		f = strings.TrimSpace(f)
		if f != "" {
			out = append(out, strings.Fields(f)[0])
		}
	}
	return out
}

// parseSpecDef parses  name(p T, q U) R [= body]
func parseSpecDef(s string, uninterpreted bool) (*SpecDef, error) {
	hdr, body := s, ""
	if i := strings.Index(s, " = "); i >= 0 && !uninterpreted {
		hdr, body = s[:i], strings.TrimSpace(s[i+3:])
	}
	i := strings.Index(hdr, "(")
	if i < 0 {
		return nil, fmt.Errorf("bad spec header %q", hdr)
	}
	name := strings.TrimSpace(hdr[:i])
	e, err := parser.ParseExpr("func" + hdr[i:])
	if err != nil {
		return nil, fmt.Errorf("bad spec signature %q: %v", hdr, err)
	}
	ft, ok := e.(*ast.FuncType)
	if !ok {
		return nil, fmt.Errorf("bad spec signature %q", hdr)
	}
	sd := &SpecDef{Name: name, Src: s}
	for _, f := range ft.Params.List {
		for _, n := range f.Names {
			sd.Params = append(sd.Params, SpecParam{n.Name, f.Type})
		}
	}
	if ft.Results != nil && len(ft.Results.List) == 1 {
		sd.Ret = ft.Results.List[0].Type
	} else {
		return nil, fmt.Errorf("spec %s needs exactly one result type", name)
	}
	if body != "" {
		b, err := parser.ParseExpr(body)
		if err != nil {
			return nil, fmt.Errorf("spec %s body: %v", name, err)
		}
		sd.Body = b
	}
	return sd, nil
}
