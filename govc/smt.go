package main

// SMT layer: terms, declarations, solver portfolio.

import (
	"bytes"
	"context"
	"fmt"
	"go/types"
	"math/big"
	"os/exec"
	"regexp"
	"sort"
	"strings"
	"sync"
	"time"
)

// Term is an SMT-LIB term together with the Go type it stands for (T may be nil
// for purely logical values; Sort is always set).
type Term struct {
	S    string
	Sort string
	T    types.Type
}

func (t Term) String() string { return t.S }

func mkInt(n int64) Term {
	if n < 0 {
		return Term{S: fmt.Sprintf("(- %d)", -n), Sort: "Int"}
	}
	return Term{S: fmt.Sprintf("%d", n), Sort: "Int"}
}
func mkBool(b bool) Term {
	if b {
		return Term{S: "true", Sort: "Bool"}
	}
	return Term{S: "false", Sort: "Bool"}
}

func app(op string, args ...string) string {
	return "(" + op + " " + strings.Join(args, " ") + ")"
}

// numeral parses an SMT integer literal ("5", "(- 5)").
func numeral(s string) (*big.Int, bool) {
	neg := false
	if strings.HasPrefix(s, "(- ") && strings.HasSuffix(s, ")") && !strings.Contains(s[3:], " ") {
		neg = true
		s = s[3 : len(s)-1]
	}
	if s == "" || s[0] < '0' || s[0] > '9' {
		return nil, false
	}
	n, ok := new(big.Int).SetString(s, 10)
	if !ok {
		return nil, false
	}
	if neg {
		n.Neg(n)
	}
	return n, true
}

func numStr(n *big.Int) string {
	if n.Sign() < 0 {
		return "(- " + new(big.Int).Neg(n).String() + ")"
	}
	return n.String()
}

// arith builds (op a b) with constant folding on literals (keeps paths with concrete counters decidable).
func arith(op, a, b string) string {
	x, ok1 := numeral(a)
	y, ok2 := numeral(b)
	if ok1 && ok2 {
		switch op {
		case "+":
			return numStr(new(big.Int).Add(x, y))
		case "-":
			return numStr(new(big.Int).Sub(x, y))
		case "*":
			return numStr(new(big.Int).Mul(x, y))
		case "<":
			return mkBool(x.Cmp(y) < 0).S
		case "<=":
			return mkBool(x.Cmp(y) <= 0).S
		case ">":
			return mkBool(x.Cmp(y) > 0).S
		case ">=":
			return mkBool(x.Cmp(y) >= 0).S
		case "=":
			return mkBool(x.Cmp(y) == 0).S
		}
	}
	if op == "=" && a == b {
		return "true"
	}
	return app(op, a, b)
}

func and(fs ...string) string {
	var out []string
	for _, f := range fs {
		if f == "true" || f == "" {
			continue
		}
		if f == "false" {
			return "false"
		}
		out = append(out, f)
	}
	switch len(out) {
	case 0:
		return "true"
	case 1:
		return out[0]
	}
	return app("and", out...)
}
func or(fs ...string) string {
	var out []string
	for _, f := range fs {
		if f == "false" || f == "" {
			continue
		}
		if f == "true" {
			return "true"
		}
		out = append(out, f)
	}
	switch len(out) {
	case 0:
		return "false"
	case 1:
		return out[0]
	}
	return app("or", out...)
}
func not(f string) string {
	switch f {
	case "true":
		return "false"
	case "false":
		return "true"
	}
	if strings.HasPrefix(f, "(not ") {
		return f[5 : len(f)-1]
	}
	return app("not", f)
}
func imp(a, b string) string {
	if a == "true" {
		return b
	}
	if b == "true" || a == "false" {
		return "true"
	}
	return app("=>", a, b)
}

// Ctx collects declarations (append-only, in dependency order).
type declEntry struct {
	text string
	key  string // "" = always included; otherwise a definition that matters only when symbol `key` is relevant
}

type Ctx struct {
	decls    []declEntry
	declared map[string]bool
	n        int
	structs  map[string]*types.Struct // datatype name -> struct
	strLits  map[string]string        // literal -> const name
	typeTags map[string]int           // type string -> tag
	tagTypes []types.Type
	notes    map[string]bool // assumptions / abstractions made while generating VCs
	defs     map[string]string // defining term -> constant (global definitional extensions)
	views    map[string]string // memory|slice -> view array constant
	stores   map[string]storeInfo
	viewsByMem map[string][]string
}

type storeInfo struct{ base, idx, val string }

func newCtx() *Ctx {
	c := &Ctx{declared: map[string]bool{}, structs: map[string]*types.Struct{}, strLits: map[string]string{}, typeTags: map[string]int{}, notes: map[string]bool{}, defs: map[string]string{}, views: map[string]string{}, stores: map[string]storeInfo{}, viewsByMem: map[string][]string{}}
	c.decl("(declare-datatypes ((Slice 0)) (((mk-slice (s-arr Int) (s-off Int) (s-len Int) (s-cap Int)))))")
	c.decl("(declare-datatypes ((Iface 0)) (((mk-iface (i-tag Int) (i-val Int)))))")
	c.decl("(declare-sort Str 0)")
	c.decl("(declare-fun strlen (Str) Int)")
	c.decl("(assert (forall ((s Str)) (! (>= (strlen s) 0) :pattern ((strlen s)))))")
	c.decl("(declare-fun strat (Str Int) Int)")
	c.decl("(declare-const str!empty Str)")
	c.decl("(assert (= (strlen str!empty) 0))")
	c.decl("(assert (forall ((s Str)) (! (=> (= (strlen s) 0) (= s str!empty)) :pattern ((strlen s)))))")
	c.strLits[""] = "str!empty"
	c.tagTypes = append(c.tagTypes, nil) // tag 0 = nil interface
	return c
}

func (c *Ctx) note(s string) { c.notes[s] = true }

func (c *Ctx) decl(s string) { c.decls = append(c.decls, declEntry{s, ""}) }

// declKeyed records a definitional assertion about the fresh symbol key (relevance filtering may drop it from
// queries that never mention key).
func (c *Ctx) declKeyed(key, s string) { c.decls = append(c.decls, declEntry{s, key}) }

var symRe = regexp.MustCompile(`[A-Za-z_][A-Za-z0-9_.!]*`)

// render builds the declaration prefix of a query: all declarations, the unkeyed assertions, and the keyed
// definitions reachable from the symbols of body (cone of influence).
func (c *Ctx) render(body string) string {
	rel := map[string]bool{}
	add := func(t string) {
		for _, m := range symRe.FindAllString(t, -1) {
			rel[m] = true
		}
	}
	add(body)
	include := make([]bool, len(c.decls))
	for i, d := range c.decls {
		if d.key == "" {
			include[i] = true
			if strings.HasPrefix(d.text, "(assert") {
				add(d.text)
			}
		}
	}
	for changed := true; changed; {
		changed = false
		for i, d := range c.decls {
			if !include[i] && rel[d.key] {
				include[i] = true
				add(d.text)
				changed = true
			}
		}
	}
	var b strings.Builder
	for i, d := range c.decls {
		if include[i] {
			b.WriteString(d.text)
			b.WriteByte('\n')
		}
	}
	return b.String()
}

func (c *Ctx) declOnce(name, s string) {
	if !c.declared[name] {
		c.declared[name] = true
		c.decl(s)
	}
}

func (c *Ctx) declOnceKeyed(name, key, s string) {
	if !c.declared[name] {
		c.declared[name] = true
		c.declKeyed(key, s)
	}
}

func (c *Ctx) fresh(hint, sort string) string {
	c.n++
	hint = sanitize(hint)
	name := fmt.Sprintf("%s!%d", hint, c.n)
	c.decl(fmt.Sprintf("(declare-const %s %s)", name, sort))
	return name
}

func (c *Ctx) freshFun(hint string, args []string, res string) string {
	c.n++
	name := fmt.Sprintf("%s!%d", sanitize(hint), c.n)
	c.decl(fmt.Sprintf("(declare-fun %s (%s) %s)", name, strings.Join(args, " "), res))
	return name
}

var sanRe = regexp.MustCompile(`[^A-Za-z0-9_.]`)

func sanitize(s string) string {
	s = sanRe.ReplaceAllString(s, "_")
	if s == "" {
		s = "v"
	}
	return s
}

func (c *Ctx) strLit(s string) Term {
	if n, ok := c.strLits[s]; ok {
		return Term{S: n, Sort: "Str", T: types.Typ[types.String]}
	}
	name := fmt.Sprintf("str!lit%d", len(c.strLits))
	c.decl(fmt.Sprintf("(declare-const %s Str)", name))
	c.declKeyed(name, fmt.Sprintf("(assert (= (strlen %s) %d))", name, len(s)))
	// distinct from all earlier literals
	var olds []string
	for _, o := range c.strLits {
		olds = append(olds, o)
	}
	sort.Strings(olds)
	for _, o := range olds {
		c.declKeyed(name, fmt.Sprintf("(assert (not (= %s %s)))", name, o))
	}
	for i := 0; i < len(s) && i < 16; i++ {
		c.declKeyed(name, fmt.Sprintf("(assert (= (strat %s %d) %d))", name, i, s[i]))
	}
	c.strLits[s] = name
	return Term{S: name, Sort: "Str", T: types.Typ[types.String]}
}

// typeTag returns the dynamic-type tag used inside Iface values.
func (c *Ctx) typeTag(t types.Type) int {
	k := types.TypeString(t, nil)
	if n, ok := c.typeTags[k]; ok {
		return n
	}
	n := len(c.tagTypes)
	c.tagTypes = append(c.tagTypes, t)
	c.typeTags[k] = n
	return n
}

// sortOf maps a Go type to an SMT sort, declaring datatypes on demand.
func (c *Ctx) sortOf(t types.Type) string {
	switch u := t.Underlying().(type) {
	case *types.Basic:
		switch {
		case u.Info()&types.IsBoolean != 0:
			return "Bool"
		case u.Info()&types.IsInteger != 0:
			return "Int"
		case u.Info()&types.IsString != 0:
			return "Str"
		case u.Kind() == types.UntypedNil:
			return "Int"
		case u.Kind() == types.UnsafePointer:
			return "Int"
		}
		return "Int" // floats etc. are outside the subset; callers note it
	case *types.Pointer, *types.Map, *types.Signature, *types.Chan:
		return "Int"
	case *types.Slice:
		return "Slice"
	case *types.Interface:
		return "Iface"
	case *types.Array:
		return "(Array Int " + c.sortOf(u.Elem()) + ")"
	case *types.Struct:
		name := c.structName(t, u)
		return name
	}
	return "Int"
}

func (c *Ctx) structName(t types.Type, u *types.Struct) string {
	var name string
	if n, ok := t.(*types.Named); ok {
		name = "S!" + sanitize(n.Obj().Name())
		if n.Obj().Pkg() != nil {
			name = "S!" + sanitize(n.Obj().Pkg().Name()) + "." + sanitize(n.Obj().Name())
		}
	} else if a, ok := t.(*types.Alias); ok {
		return c.structName(types.Unalias(a), u)
	} else {
		name = "S!anon" + sanitize(u.String())
	}
	if _, ok := c.structs[name]; ok {
		return name
	}
	c.structs[name] = u
	var fs []string
	for i := 0; i < u.NumFields(); i++ {
		f := u.Field(i)
		fs = append(fs, fmt.Sprintf("(%s %s)", fieldSel(name, f.Name()), c.sortOf(f.Type())))
	}
	if len(fs) == 0 {
		fs = append(fs, fmt.Sprintf("(%s Int)", fieldSel(name, "!unit")))
	}
	c.decl(fmt.Sprintf("(declare-datatypes ((%s 0)) (((mk!%s %s))))", name, name, strings.Join(fs, " ")))
	return name
}

func fieldSel(structSort, f string) string { return structSort + "!" + sanitize(f) }

func sortID(s string) string { return sanitize(strings.NewReplacer("(", "", ")", "", " ", "_").Replace(s)) }

// intRange returns the inclusive range of a sized integer type (ok=false: unbounded / mathematical).
func intRange(t types.Type) (lo, hi string, ok bool) {
	b, isb := t.Underlying().(*types.Basic)
	if !isb {
		return "", "", false
	}
	switch b.Kind() {
	case types.Int8:
		return "(- 128)", "127", true
	case types.Int16:
		return "(- 32768)", "32767", true
	case types.Int32:
		return "(- 2147483648)", "2147483647", true
	case types.Uint8:
		return "0", "255", true
	case types.Uint16:
		return "0", "65535", true
	case types.Uint32:
		return "0", "4294967295", true
	case types.Uint, types.Uint64, types.Uintptr:
		// 64-bit machine integers are treated as mathematical (recorded assumption); only the sign is kept
		return "0", "", true
	}
	return "", "", false
}

// ---------------------------------------------------------------------------------------
// Solver portfolio

type SolveResult struct {
	Status string // unsat | sat | unknown | timeout | error
	Solver string
	Secs   float64
	Model  string
	Raw    string
}

type solverSpec struct {
	name string
	args func(timeoutS int) []string
}

// Effort is bounded by the solvers' deterministic resource counters (z3 rlimit, cvc5 rlimit), not by wall-clock
// time, so that the verdict does not depend on machine load; the wall limit is only a generous safety net.
const z3UnitsPerSec = 3000000
const cvc5UnitsPerSec = 200000

func wallFor(t int) int { return 60 + 30*t }

var solvers = []solverSpec{
	{"z3-4.8.12", func(t int) []string {
		return []string{"z3", "-in", "-smt2", fmt.Sprintf("-T:%d", wallFor(t)), fmt.Sprintf("rlimit=%d", t*z3UnitsPerSec)}
	}},
	{"z3-5.1.0", func(t int) []string {
		return []string{"z3-new", "-in", "-smt2", fmt.Sprintf("-T:%d", wallFor(t)), fmt.Sprintf("rlimit=%d", t*z3UnitsPerSec)}
	}},
	{"cvc5-1.0", func(t int) []string {
		return []string{"cvc5", "--lang", "smt2", "--produce-models", fmt.Sprintf("--tlimit=%d", wallFor(t)*1000), fmt.Sprintf("--rlimit=%d", t*cvc5UnitsPerSec)}
	}},
}

func runSolver(sp solverSpec, query string, timeoutS int, wantModel bool) SolveResult {
	return runSolverCtx(context.Background(), sp, query, timeoutS, wantModel)
}

// runSolverCtx: parent may be cancelled when another solver has already proved the query (the result is then "cancelled").
func runSolverCtx(parent context.Context, sp solverSpec, query string, timeoutS int, wantModel bool) SolveResult {
	q := query
	if wantModel {
		q += "(get-model)\n"
	}
	ctx, cancel := context.WithTimeout(parent, time.Duration(wallFor(timeoutS)+5)*time.Second)
	defer cancel()
	a := sp.args(timeoutS)
	cmd := exec.CommandContext(ctx, a[0], a[1:]...)
	if strings.HasPrefix(sp.name, "cvc5") {
		q = "(set-logic ALL)\n" + q
	}
	cmd.Stdin = strings.NewReader(q)
	var out bytes.Buffer
	cmd.Stdout = &out
	cmd.Stderr = &out
	t0 := time.Now()
	_ = cmd.Run()
	secs := time.Since(t0).Seconds()
	raw := out.String()
	first := strings.TrimSpace(strings.SplitN(raw, "\n", 2)[0])
	r := SolveResult{Solver: sp.name, Secs: secs, Raw: raw}
	switch first {
	case "unsat":
		r.Status = "unsat"
	case "sat":
		r.Status = "sat"
		if i := strings.Index(raw, "\n"); i >= 0 {
			r.Model = raw[i+1:]
		}
	case "unknown":
		r.Status = "unknown"
	case "timeout":
		r.Status = "timeout"
	default:
		if ctx.Err() != nil || strings.Contains(raw, "timeout") || strings.Contains(raw, "interrupted") || strings.Contains(raw, "resource") {
			r.Status = "timeout"
		} else {
			r.Status = "error"
		}
	}
	return r
}

// solve races the portfolio: fast z3 first, then the others in parallel.
func solve(query string, timeoutS int) (SolveResult, []SolveResult) {
	var all []SolveResult
	quick := timeoutS
	if quick > 3 {
		quick = 3
	}
	r := runSolver(solvers[0], query, quick, true)
	all = append(all, r)
	if r.Status == "unsat" {
		return r, all
	}
	// second tier: all solvers at the full budget plus z3 5.1 under four more fixed random seeds, in parallel (quantifier
	// instantiation is sensitive to the seed: a query that times out under one seed is often decided at once under
	// another; the list is fixed, so the outcome is reproducible); as soon as one proves the query the others are stopped
	ctx2, cancel2 := context.WithCancel(context.Background())
	var wg sync.WaitGroup
	var mu sync.Mutex
	res := make([]SolveResult, len(solvers))
	report := func(r SolveResult) {
		if r.Status == "unsat" {
			cancel2()
		}
	}
	for i := 1; i < len(solvers); i++ {
		wg.Add(1)
		go func(i int) {
			defer wg.Done()
			rr := runSolverCtx(ctx2, solvers[i], query, timeoutS, true)
			mu.Lock()
			res[i] = rr
			mu.Unlock()
			report(rr)
		}(i)
	}
	var seedRes []SolveResult
	if timeoutS > quick {
		for _, sd := range []int{2, 3, 5, 6} {
			wg.Add(1)
			go func(sd int) {
				defer wg.Done()
				sp := solverSpec{fmt.Sprintf("z3-5.1.0/seed%d", sd), func(t int) []string {
					return []string{"z3-new", "-in", "-smt2", fmt.Sprintf("-T:%d", wallFor(t)), fmt.Sprintf("rlimit=%d", t*z3UnitsPerSec), fmt.Sprintf("smt.random_seed=%d", sd), fmt.Sprintf("sat.random_seed=%d", sd)}
				}}
				rr := runSolverCtx(ctx2, sp, query, timeoutS, true)
				mu.Lock()
				seedRes = append(seedRes, rr)
				mu.Unlock()
				report(rr)
			}(sd)
		}
	}
	var r0 SolveResult
	if r.Status != "sat" && timeoutS > quick {
		wg.Add(1)
		go func() {
			defer wg.Done()
			rr := runSolverCtx(ctx2, solvers[0], query, timeoutS, true)
			mu.Lock()
			r0 = rr
			mu.Unlock()
			report(rr)
		}()
	}
	wg.Wait()
	cancel2()
	if r0.Status != "" {
		all = append(all, r0)
	}
	all = append(all, res[1:]...)
	sort.Slice(seedRes, func(i, j int) bool { return seedRes[i].Solver < seedRes[j].Solver })
	all = append(all, seedRes...)
	var best SolveResult
	sawSat, sawUnsat := false, false
	for _, x := range all {
		if x.Status == "unsat" && !sawUnsat {
			sawUnsat = true
			best = x
		}
	}
	for _, x := range all {
		if x.Status == "sat" {
			sawSat = true
			if !sawUnsat {
				best = x
				break
			}
		}
	}
	if sawSat && sawUnsat {
		best.Status = "disagree"
		return best, all
	}
	if !sawSat && !sawUnsat {
		best = all[0]
		for _, x := range all {
			if x.Status == "unknown" {
				best = x
			}
		}
		if best.Status == "error" {
			for _, x := range all {
				if x.Status != "error" {
					best = x
				}
			}
		}
	}
	return best, all
}
