package main

// Symbolic evaluation of Go expressions, with safety obligations.

import (
	"fmt"
	"go/ast"
	"go/token"
	"go/types"
	"sort"
	"strings"
)

func (x *Exec) typeOf(e ast.Expr) types.Type {
	if tv, ok := x.info.Types[e]; ok {
		return tv.Type
	}
	if id, ok := e.(*ast.Ident); ok {
		if o := x.info.ObjectOf(id); o != nil {
			return o.Type()
		}
	}
	return nil
}

// arrayLen is the length of an array type: symbolic when it is one of the symbolic table sizes.
func (x *Exec) arrayLen(u *types.Array) string {
	if k, ok := x.symByVal[u.Len()]; ok {
		return k
	}
	return fmt.Sprint(u.Len())
}

func (x *Exec) eval(e ast.Expr, st *State) Term {
	if id, ok := ast.Unparen(e).(*ast.Ident); ok {
		if k, ok := x.symConst[x.info.ObjectOf(id)]; ok {
			return Term{S: k, Sort: "Int", T: x.typeOf(e)}
		}
	}
	if tv, ok := x.info.Types[e]; ok && tv.Value != nil {
		t := tv.Type
		if b, ok := t.(*types.Basic); ok && b.Info()&types.IsUntyped != 0 {
			t = types.Default(t)
		}
		return constTerm(x.ctx, tv.Value, t)
	}
	switch n := e.(type) {
	case *ast.ParenExpr:
		return x.eval(n.X, st)
	case *ast.Ident:
		if n.Name == "nil" {
			if _, ok := x.info.Uses[n].(*types.Nil); ok {
				return Term{S: "nil!", Sort: "Int"}
			}
		}
		obj := x.info.ObjectOf(n)
		switch o := obj.(type) {
		case *types.Var:
			if t, ok := st.vars[o]; ok {
				return t
			}
			if o.Pkg() != nil && o.Parent() == o.Pkg().Scope() {
				g := x.loadGlobal(st, o)
				st.assume(x.typeInv(x.allocStateFor(st, g.S), g))
				return g
			}
			x.unsupported(n, "variable %s has no value (captured or address-taken?)", n.Name)
		case *types.Const:
			return constTerm(x.ctx, o.Val(), o.Type())
		case *types.Func:
			x.unsupported(n, "function value %s", n.Name)
		}
		x.unsupported(n, "identifier %s", n.Name)
	case *ast.UnaryExpr:
		switch n.Op {
		case token.NOT:
			a := x.eval(n.X, st)
			return Term{S: not(a.S), Sort: "Bool", T: a.T}
		case token.SUB:
			a := x.eval(n.X, st)
			r := Term{S: app("-", a.S), Sort: "Int", T: x.typeOf(e)}
			x.checkRange(st, r, n)
			return r
		case token.ADD:
			return x.eval(n.X, st)
		case token.AND:
			if cl, ok := n.X.(*ast.CompositeLit); ok {
				v := x.eval(cl, st)
				s, stT := structOf(v.T)
				if s == nil {
					x.unsupported(n, "&composite of non-struct")
				}
				r := x.allocRef(st, "new")
				ptr := Term{S: r.S, Sort: "Int", T: types.NewPointer(stT)}
				x.storeStruct(st, ptr, s, stT, v)
				return ptr
			}
			x.unsupported(n, "address-of")
		}
		x.unsupported(n, "unary operator %s", n.Op)
	case *ast.BinaryExpr:
		return x.evalBinary(n, st)
	case *ast.CallExpr:
		rs := x.evalCall(n, st)
		if len(rs) != 1 {
			x.unsupported(n, "call with %d results in expression context", len(rs))
		}
		return rs[0]
	case *ast.SelectorExpr:
		if sel, ok := x.info.Selections[n]; ok {
			if sel.Kind() != types.FieldVal {
				x.unsupported(n, "method value")
			}
			if len(sel.Index()) != 1 {
				x.unsupported(n, "promoted field %s", n.Sel.Name)
			}
			base := x.eval(n.X, st)
			f := sel.Obj().(*types.Var)
			s, stT := structOf(base.T)
			if s == nil {
				x.unsupported(n, "selector on %s", base.T)
			}
			if _, isPtr := base.T.Underlying().(*types.Pointer); isPtr {
				x.oblige(st, "nil", "", n, not(app("=", base.S, "0")))
				v := x.loadField(st, base, stT, f)
				heap := x.memTerm(st, fieldKey(stT, f.Name()), "(Array Int "+x.ctx.sortOf(f.Type())+")")
				v = x.define(st, f.Name(), v)
				st.assume(x.typeInv(x.allocStateForRef(st, heap.S, base), v))
				return v
			}
			return x.fieldOfValue(base, f)
		}
		// qualified identifier
		obj := x.info.Uses[n.Sel]
		switch o := obj.(type) {
		case *types.Var:
			g := x.loadGlobal(st, o)
			st.assume(x.typeInv(x.allocStateFor(st, g.S), g))
			return g
		case *types.Const:
			return constTerm(x.ctx, o.Val(), o.Type())
		}
		x.unsupported(n, "selector %s", exprString(n))
	case *ast.IndexExpr:
		base := x.eval(n.X, st)
		switch u := base.T.Underlying().(type) {
		case *types.Slice:
			i := x.eval(n.Index, st)
			x.oblige(st, "bounds", "", n, and(app("<=", "0", i.S), app("<", i.S, app("s-len", base.S))))
			v := x.define(st, "elem", x.loadElem(st, base, i, u.Elem()))
			st.assume(x.typeInv(st, v))
			return v
		case *types.Array:
			i := x.eval(n.Index, st)
			x.oblige(st, "bounds", "", n, and(app("<=", "0", i.S), app("<", i.S, x.arrayLen(u))))
			v := x.define(st, "elem", Term{S: app("select", base.S, i.S), Sort: x.ctx.sortOf(u.Elem()), T: u.Elem()})
			st.assume(x.typeInv(st, v))
			return v
		case *types.Basic:
			if u.Info()&types.IsString != 0 {
				i := x.eval(n.Index, st)
				x.oblige(st, "bounds", "", n, and(app("<=", "0", i.S), app("<", i.S, app("strlen", base.S))))
				v := Term{S: app("strat", base.S, i.S), Sort: "Int", T: types.Typ[types.Byte]}
				st.assume(x.typeInv(st, v))
				return v
			}
		case *types.Map:
			k := x.convert(st, x.eval(n.Index, st), u.Key())
			v := x.define(st, "mapv", x.mapGetOrZero(st, base, u, k))
			st.assume(x.typeInv(st, v))
			return v
		case *types.Pointer:
			if a, ok := u.Elem().Underlying().(*types.Array); ok {
				_ = a
				x.unsupported(n, "index through pointer to array")
			}
		}
		x.unsupported(n, "index of %s", base.T)
	case *ast.SliceExpr:
		return x.evalSlice(n, st)
	case *ast.StarExpr:
		p := x.eval(n.X, st)
		if s, stT := structOf(p.T); s != nil {
			x.oblige(st, "nil", "", n, not(app("=", p.S, "0")))
			return x.loadStruct(st, p, s, stT)
		}
		x.unsupported(n, "dereference of %s", p.T)
	case *ast.CompositeLit:
		return x.evalComposite(n, st)
	case *ast.TypeAssertExpr:
		v := x.eval(n.X, st)
		t := x.typeOf(n.Type)
		if _, isI := t.Underlying().(*types.Interface); isI {
			x.unsupported(n, "assertion to interface type")
		}
		x.oblige(st, "assert-type", "", n, app("=", app("i-tag", v.S), fmt.Sprint(x.ctx.typeTag(t))))
		return x.unboxPayload(app("i-val", v.S), t)
	case *ast.FuncLit:
		x.unsupported(n, "function literal")
	}
	x.unsupported(e, "expression %T", e)
	return Term{}
}

func (x *Exec) loadStruct(st *State, p Term, s *types.Struct, stT types.Type) Term {
	sn := x.ctx.sortOf(stT)
	var args []string
	for i := 0; i < s.NumFields(); i++ {
		args = append(args, x.loadField(st, p, stT, s.Field(i)).S)
	}
	if len(args) == 0 {
		args = []string{"0"}
	}
	return Term{S: app("mk!"+sn, args...), Sort: sn, T: stT}
}

func (x *Exec) storeStruct(st *State, p Term, s *types.Struct, stT types.Type, v Term) {
	for i := 0; i < s.NumFields(); i++ {
		f := s.Field(i)
		x.storeField(st, p, stT, f, x.fieldOfValue(v, f))
	}
}

// checkRange emits the overflow obligation for a sized-integer result.
func (x *Exec) checkRange(st *State, r Term, n ast.Node) {
	if r.T == nil {
		return
	}
	if lo, hi, ok := intRange(r.T); ok {
		if hi == "" {
			x.oblige(st, "ovf", "", n, arith("<=", lo, r.S))
			return
		}
		x.oblige(st, "ovf", "", n, and(arith("<=", lo, r.S), arith("<=", r.S, hi)))
	}
}

// wrapped models sized-integer arithmetic of a function whose contract says `wraps`: Go defines the result modulo
// 2^n; the model keeps the mathematical value when it is in range and an arbitrary value of the type otherwise
// (no overflow obligation is generated).
func (x *Exec) wrapped(st *State, r Term) Term {
	lo, hi, ok := intRange(r.T)
	if !ok || hi == "" {
		return r
	}
	v := x.ctx.fresh("wrap", "Int")
	in := and(arith("<=", lo, r.S), arith("<=", r.S, hi))
	st.assume(and(arith("<=", lo, v), arith("<=", v, hi)))
	st.assume(imp(in, app("=", v, r.S)))
	return Term{S: v, Sort: "Int", T: r.T}
}

func (x *Exec) evalBinary(n *ast.BinaryExpr, st *State) Term {
	switch n.Op {
	case token.LAND, token.LOR:
		a := x.eval(n.X, st)
		g := a.S
		if n.Op == token.LOR {
			g = not(a.S)
		}
		st.guards = append(st.guards, g)
		b := x.eval(n.Y, st)
		st.guards = st.guards[:len(st.guards)-1]
		if n.Op == token.LAND {
			return Term{S: and(a.S, b.S), Sort: "Bool", T: boolT}
		}
		return Term{S: or(a.S, b.S), Sort: "Bool", T: boolT}
	}
	a, b := x.eval(n.X, st), x.eval(n.Y, st)
	rt := x.typeOf(n)
	if a.S == "nil!" && b.S != "nil!" {
		a = x.zeroOf(b.T)
	}
	if b.S == "nil!" && a.S != "nil!" {
		b = x.zeroOf(a.T)
	}
	switch n.Op {
	case token.EQL, token.NEQ:
		if a.Sort != b.Sort {
			if a.Sort == "Iface" {
				b = x.convert(st, b, a.T)
			} else if b.Sort == "Iface" {
				a = x.convert(st, a, b.T)
			} else {
				x.unsupported(n, "comparison of %s and %s", a.Sort, b.Sort)
			}
		}
		eq := arith("=", a.S, b.S)
		if a.Sort == "Slice" {
			o := a
			if isZeroSlice(a.S) {
				o = b
			}
			eq = app("=", app("s-arr", o.S), "0")
		}
		if n.Op == token.NEQ {
			eq = not(eq)
		}
		return Term{S: eq, Sort: "Bool", T: boolT}
	case token.LSS, token.LEQ, token.GTR, token.GEQ:
		if a.Sort != "Int" {
			x.unsupported(n, "ordered comparison of %s", a.Sort)
		}
		op := map[token.Token]string{token.LSS: "<", token.LEQ: "<=", token.GTR: ">", token.GEQ: ">="}[n.Op]
		return Term{S: arith(op, a.S, b.S), Sort: "Bool", T: boolT}
	case token.ADD:
		if a.Sort == "Str" {
			x.ctx.declOnce("strcat", "(declare-fun strcat (Str Str) Str)\n(assert (forall ((a Str) (b Str)) (! (= (strlen (strcat a b)) (+ (strlen a) (strlen b))) :pattern ((strcat a b)))))")
			return Term{S: app("strcat", a.S, b.S), Sort: "Str", T: rt}
		}
		r := Term{S: arith("+", a.S, b.S), Sort: "Int", T: rt}
		if x.con != nil && x.con.Wraps {
			return x.wrapped(st, r)
		}
		x.checkRange(st, r, n)
		return r
	case token.SUB:
		r := Term{S: arith("-", a.S, b.S), Sort: "Int", T: rt}
		if x.con != nil && x.con.Wraps {
			return x.wrapped(st, r)
		}
		x.checkRange(st, r, n)
		return r
	case token.MUL:
		r := Term{S: arith("*", a.S, b.S), Sort: "Int", T: rt}
		if x.con != nil && x.con.Wraps {
			return x.wrapped(st, r)
		}
		x.checkRange(st, r, n)
		return r
	case token.QUO:
		x.oblige(st, "div0", "", n, not(app("=", b.S, "0")))
		r := Term{S: goDiv(a.S, b.S), Sort: "Int", T: rt}
		x.checkRange(st, r, n)
		return r
	case token.REM:
		x.oblige(st, "div0", "", n, not(app("=", b.S, "0")))
		return Term{S: goRem(a.S, b.S), Sort: "Int", T: rt}
	}
	// bit operations: abstracted (sound: unconstrained result within the type's range)
	x.ctx.note(fmt.Sprintf("abstracted operator %s at %s", n.Op, x.posOf(n)))
	return x.freshOf(st, "bitop", rt)
}

func (x *Exec) evalSlice(n *ast.SliceExpr, st *State) Term {
	base := x.eval(n.X, st)
	if base.Sort == "Str" {
		x.unsupported(n, "string slicing")
	}
	if base.Sort != "Slice" {
		x.unsupported(n, "slicing %s", base.T)
	}
	lo, hi := mkInt(0), Term{S: app("s-len", base.S), Sort: "Int"}
	if n.Low != nil {
		lo = x.eval(n.Low, st)
	}
	if n.High != nil {
		hi = x.eval(n.High, st)
	}
	capT := app("s-cap", base.S)
	mx := capT
	if n.Max != nil {
		mx = x.eval(n.Max, st).S
		x.oblige(st, "bounds", "slice-max", n, and(app("<=", hi.S, mx), app("<=", mx, capT)))
	}
	x.oblige(st, "bounds", "slice", n, and(app("<=", "0", lo.S), app("<=", lo.S, hi.S), app("<=", hi.S, mx)))
	r := Term{S: app("mk-slice", app("s-arr", base.S), app("+", app("s-off", base.S), lo.S), app("-", hi.S, lo.S), app("-", mx, lo.S)), Sort: "Slice", T: x.typeOf(n)}
	r = x.define(st, "slice", r)
	x.resliceView(st, base, r, lo)
	return r
}

// resliceView defines the view of r = base[lo:...] under the current memory in terms of the view of base.
func (x *Exec) resliceView(st *State, base, r, lo Term) {
	sl, ok := base.T.Underlying().(*types.Slice)
	if !ok || strings.Contains(r.S, "?") || strings.Contains(base.S, "?") {
		return
	}
	es := x.ctx.sortOf(sl.Elem())
	m := x.elemMemT(st, sl.Elem())
	key := m.S + "|" + r.S
	if _, ok := x.ctx.views[key]; ok {
		return
	}
	vb, _ := x.viewOf(st, base, sl.Elem())
	if lo.S == "0" {
		x.regView(m.S, r.S, vb.S)
		return
	}
	nv := x.ctx.fresh("view", "(Array Int "+es+")")
	x.ctx.declKeyed(nv, fmt.Sprintf("(assert (forall ((k?r Int)) (! (= (select %s k?r) (select %s (+ %s k?r))) :pattern ((select %s k?r)))))", nv, vb.S, lo.S, nv))
	x.regView(m.S, r.S, nv)
	x.bridge(nv, m, r)
}

func (x *Exec) evalComposite(n *ast.CompositeLit, st *State) Term {
	t := x.typeOf(n)
	switch u := t.Underlying().(type) {
	case *types.Struct:
		vals := make([]Term, u.NumFields())
		for i := range vals {
			vals[i] = x.zeroOf(u.Field(i).Type())
		}
		for i, el := range n.Elts {
			if kv, ok := el.(*ast.KeyValueExpr); ok {
				name := kv.Key.(*ast.Ident).Name
				for j := 0; j < u.NumFields(); j++ {
					if u.Field(j).Name() == name {
						vals[j] = x.convert(st, x.eval(kv.Value, st), u.Field(j).Type())
					}
				}
			} else {
				vals[i] = x.convert(st, x.eval(el, st), u.Field(i).Type())
			}
		}
		sn := x.ctx.sortOf(t)
		var args []string
		for _, v := range vals {
			args = append(args, v.S)
		}
		if len(args) == 0 {
			args = []string{"0"}
		}
		return Term{S: app("mk!"+sn, args...), Sort: sn, T: t}
	case *types.Slice:
		// fresh backing array holding the listed elements
		for _, el := range n.Elts {
			if _, ok := el.(*ast.KeyValueExpr); ok {
				x.unsupported(n, "keyed slice literal")
			}
		}
		es := x.ctx.sortOf(u.Elem())
		r := x.allocRef(st, "lit")
		k := len(n.Elts)
		s := Term{S: app("mk-slice", r.S, "0", fmt.Sprint(k), fmt.Sprint(k)), Sort: "Slice", T: t}
		for i, el := range n.Elts {
			v := x.convert(st, x.eval(el, st), u.Elem())
			x.storeElem(st, s, mkInt(int64(i)), u.Elem(), v)
		}
		_ = es
		return s
	case *types.Map:
		m := x.newMap(st, u, t)
		for _, el := range n.Elts {
			kv, ok := el.(*ast.KeyValueExpr)
			if !ok {
				x.unsupported(n, "map literal element")
			}
			kk := x.convert(st, x.eval(kv.Key, st), u.Key())
			vv := x.convert(st, x.eval(kv.Value, st), u.Elem())
			x.mapSet(st, m, u, kk, vv)
		}
		return m
	}
	x.unsupported(n, "composite literal of %s", t)
	return Term{}
}

// ---- maps ----

func (x *Exec) mapKeys(u *types.Map) (kv, kh, vs, ks string) {
	ks, vs = x.ctx.sortOf(u.Key()), x.ctx.sortOf(u.Elem())
	// one memory per Go map type (key and element types as written): maps of different types are never the same
	// object (a conversion between map types needs identical key and element types)
	id := sanitize(typeName(u.Key())) + "!" + sanitize(typeName(u.Elem()))
	return "MV!" + id, "MH!" + id, vs, ks
}

func (x *Exec) mapHas(st *State, m Term, u *types.Map, k Term) Term {
	_, kh, _, ks := x.mapKeys(u)
	h := x.memTerm(st, kh, "(Array Int (Array "+ks+" Bool))")
	// a nil map has no keys (it can never be written)
	return Term{S: and(not(arith("=", m.S, "0")), app("select", app("select", h.S, m.S), k.S)), Sort: "Bool", T: boolT}
}

func (x *Exec) mapGet(st *State, m Term, u *types.Map, k Term) Term {
	kv, _, vs, ks := x.mapKeys(u)
	v := x.memTerm(st, kv, "(Array Int (Array "+ks+" "+vs+"))")
	return Term{S: app("select", app("select", v.S, m.S), k.S), Sort: vs, T: u.Elem()}
}

func (x *Exec) mapGetOrZero(st *State, m Term, u *types.Map, k Term) Term {
	g := x.mapGet(st, m, u, k)
	return Term{S: app("ite", x.mapHas(st, m, u, k).S, g.S, x.zeroOf(u.Elem()).S), Sort: g.Sort, T: u.Elem()}
}

func (x *Exec) mapSet(st *State, m Term, u *types.Map, k, v Term) {
	kvK, khK, vs, ks := x.mapKeys(u)
	vm := x.memTerm(st, kvK, "(Array Int (Array "+ks+" "+vs+"))")
	hm := x.memTerm(st, khK, "(Array Int (Array "+ks+" Bool))")
	st.mem[kvK] = x.define(st, "mv", Term{S: app("store", vm.S, m.S, app("store", app("select", vm.S, m.S), k.S, v.S)), Sort: vm.Sort})
	st.mem[khK] = x.define(st, "mh", Term{S: app("store", hm.S, m.S, app("store", app("select", hm.S, m.S), k.S, "true")), Sort: hm.Sort})
}

// mapLen: the number of keys, an uninterpreted function of the membership array; only its sign is axiomatised
// (zero exactly when the map has no key), instantiated for the array at hand.
func (x *Exec) mapLen(st *State, m Term, u *types.Map) Term {
	_, khK, _, ks := x.mapKeys(u)
	hm := x.memTerm(st, khK, "(Array Int (Array "+ks+" Bool))")
	fn := "maplen!" + sortID(ks)
	x.ctx.declOnce(fn, fmt.Sprintf("(declare-fun %s ((Array %s Bool)) Int)", fn, ks))
	a := x.define(st, "mapkeys", Term{S: app("select", hm.S, m.S), Sort: "(Array " + ks + " Bool)"})
	l := app(fn, a.S)
	x.ctx.declOnceKeyed("maplen:"+a.S, a.S, fmt.Sprintf("(assert (and (>= %s 0) (= (= %s 0) (forall ((k?m %s)) (not (select %s k?m))))))", l, l, ks, a.S))
	return Term{S: l, Sort: "Int", T: intT}
}

func (x *Exec) newMap(st *State, u *types.Map, t types.Type) Term {
	_, khK, _, ks := x.mapKeys(u)
	r := x.allocRef(st, "map")
	hm := x.memTerm(st, khK, "(Array Int (Array "+ks+" Bool))")
	st.mem[khK] = x.define(st, "mh", Term{S: app("store", hm.S, r.S, fmt.Sprintf("((as const (Array %s Bool)) false)", ks)), Sort: hm.Sort})
	return Term{S: r.S, Sort: "Int", T: t}
}

// ---- calls ----

func (x *Exec) calleeOf(call *ast.CallExpr) *types.Func {
	switch f := call.Fun.(type) {
	case *ast.Ident:
		if fn, ok := x.info.Uses[f].(*types.Func); ok {
			return fn
		}
	case *ast.SelectorExpr:
		if sel, ok := x.info.Selections[f]; ok {
			if fn, ok := sel.Obj().(*types.Func); ok {
				return fn
			}
			return nil
		}
		if fn, ok := x.info.Uses[f.Sel].(*types.Func); ok {
			return fn
		}
	case *ast.ParenExpr:
		c := *call
		c.Fun = f.X
		return x.calleeOf(&c)
	}
	return nil
}

var pureExternals = map[string]bool{
	"fmt.Sprintf": true, "fmt.Sprint": true, "fmt.Errorf": true, "errors.New": true, "fmt.Sprintln": true,
	"fmt.Printf": true, "fmt.Println": true, "fmt.Fprintf": true, "fmt.Print": true, "fmt.Fprintln": true, "fmt.Fprint": true,
	"strings.HasPrefix": true, "strings.HasSuffix": true, "strings.Join": true, "strings.Repeat": true,
	"strconv.Itoa": true, "strconv.Quote": true,
	"path.Join": true, "path.Base": true, "path.Dir": true, "path.Ext": true, "filepath.Join": true,
	"strings.Split": true, "strings.TrimSpace": true, "strings.ToLower": true, "strings.ToUpper": true, "strings.Contains": true,
	"strings.Index": true, "strings.TrimPrefix": true, "strings.TrimSuffix": true, "strings.Replace": true, "strings.ReplaceAll": true,
}

func (x *Exec) evalCall(call *ast.CallExpr, st *State) []Term {
	// conversion
	if tv, ok := x.info.Types[call.Fun]; ok && tv.IsType() {
		return []Term{x.evalConversion(call, tv.Type, st)}
	}
	// builtin
	if id, ok := ast.Unparen(call.Fun).(*ast.Ident); ok {
		if b, ok := x.info.Uses[id].(*types.Builtin); ok {
			return x.evalBuiltin(call, b.Name(), st)
		}
	}
	fn := x.calleeOf(call)
	sig, _ := x.typeOf(call.Fun).Underlying().(*types.Signature)
	if sig == nil {
		x.unsupported(call, "call of non-function")
	}
	var recv *Term
	if fn != nil {
		if se, ok := ast.Unparen(call.Fun).(*ast.SelectorExpr); ok {
			if sel, ok := x.info.Selections[se]; ok && sel.Kind() == types.MethodVal {
				r := x.eval(se.X, st)
				// a method promoted from embedded fields: walk to the embedded value first
				if idx := sel.Index(); len(idx) > 1 {
					for _, fi := range idx[:len(idx)-1] {
						s, stT := structOf(r.T)
						if s == nil {
							x.unsupported(call, "promoted method on %s", r.T)
						}
						f := s.Field(fi)
						if _, isPtr := r.T.Underlying().(*types.Pointer); isPtr {
							x.oblige(st, "nil", "", call, not(app("=", r.S, "0")))
							r = x.define(st, f.Name(), x.loadField(st, r, stT, f))
						} else {
							r = x.fieldOfValue(r, f)
						}
					}
				}
				// auto address / deref
				rsig := fn.Type().(*types.Signature)
				want := rsig.Recv().Type()
				_, wantPtr := want.Underlying().(*types.Pointer)
				_, havePtr := r.T.Underlying().(*types.Pointer)
				if _, isI := want.Underlying().(*types.Interface); !isI {
					if wantPtr && !havePtr {
						x.unsupported(call, "method call needs address of value receiver")
					}
					if !wantPtr && havePtr {
						s, stT := structOf(r.T)
						if s == nil {
							x.unsupported(call, "deref receiver")
						}
						x.oblige(st, "nil", "", call, not(app("=", r.S, "0")))
						r = x.loadStruct(st, r, s, stT)
					}
				}
				recv = &r
			}
		}
	}
	// arguments
	var args []Term
	np := sig.Params().Len()
	for i, a := range call.Args {
		v := x.eval(a, st)
		var pt types.Type
		if sig.Variadic() && i >= np-1 {
			if call.Ellipsis.IsValid() {
				pt = sig.Params().At(np - 1).Type()
			} else {
				pt = sig.Params().At(np - 1).Type().(*types.Slice).Elem()
			}
		} else if i < np {
			pt = sig.Params().At(i).Type()
		}
		args = append(args, x.convert(st, v, pt))
	}
	if fn == nil {
		return x.callFuncValue(call, sig, args, st)
	}
	key := funcKey(fn)
	if recv != nil {
		if _, isI := fn.Type().(*types.Signature).Recv().Type().Underlying().(*types.Interface); isI {
			return x.callInterfaceMethod(call, fn, *recv, sig, args, st)
		}
	}
	if sig.Variadic() && !call.Ellipsis.IsValid() {
		// pack variadic arguments: the callee sees a fresh slice; only pure externals are supported
		if c := x.prog.Contracts.Funcs[key]; c == nil && !pureExternals[key] {
			x.unsupported(call, "variadic call to %s", key)
		}
		vt := sig.Params().At(np - 1).Type()
		if sl, ok := vt.Underlying().(*types.Slice); ok && len(args) >= np-1 && x.prog.Contracts.Funcs[key] != nil {
			// the variadic arguments are packed into a fresh backing array (nil when there are none)
			extra := args[np-1:]
			var packed Term
			if len(extra) == 0 {
				packed = x.zeroOf(vt)
			} else {
				r := x.allocRef(st, "varargs")
				k := len(extra)
				packed = Term{S: app("mk-slice", r.S, "0", fmt.Sprint(k), fmt.Sprint(k)), Sort: "Slice", T: vt}
				for i, v := range extra {
					x.storeElem(st, packed, mkInt(int64(i)), sl.Elem(), x.convert(st, v, sl.Elem()))
				}
			}
			args = append(args[:np-1:np-1], packed)
		} else {
			packed := x.freshOf(st, "varargs", vt)
			args = append(args[:np-1:np-1], packed)
		}
	}
	if x.con != nil && x.con.Snapshots != nil {
		if name, ok := x.con.Snapshots["call "+fn.Name()]; ok {
			if st.snaps == nil {
				st.snaps = map[string]*State{}
			}
			st.snaps[name] = st.clone()
		}
	}
	if c := x.prog.Contracts.Funcs[key]; c != nil {
		return x.callContract(call, c, fn, recv, args, st)
	}
	return x.callUnknown(call, key, sig, st)
}

func (x *Exec) callUnknown(call ast.Node, key string, sig *types.Signature, st *State) []Term {
	if !pureExternals[key] {
		x.ctx.note("callee without contract (havoc of all memory): " + key)
		x.havocAll(st)
		st.unknownCallee = true
	} else {
		x.ctx.note("external assumed free of observable effects: " + key)
	}
	var rs []Term
	for i := 0; i < sig.Results().Len(); i++ {
		rs = append(rs, x.freshOf(st, "ret", sig.Results().At(i).Type()))
	}
	return rs
}

func (x *Exec) havocAll(st *State) {
	x.epochs++
	st.epoch = x.epochs
	for k := range st.mem {
		delete(st.mem, k)
	}
	na := x.ctx.fresh("alloc", "Int")
	st.pc = append(st.pc, app("<=", st.alloc.S, na)) // unguarded: the counter only grows, whether or not a guarded call ran
	st.alloc = Term{S: na, Sort: "Int"}
}

// callFuncValue: a call through a function-typed value (table of functions, callback).
func (x *Exec) callFuncValue(call *ast.CallExpr, sig *types.Signature, args []Term, st *State) []Term {
	fv := x.eval(call.Fun, st)
	// look for a contract named after the expression shape: pkg.<expr>#call
	key := x.fi.Pkg.Types.Name() + "." + strings.ReplaceAll(exprShape(call.Fun), " ", "") + "#call"
	if c := x.prog.Contracts.Funcs[key]; c != nil {
		names := map[string]Term{"fn": fv}
		return x.applyContract(call, c, key, names, c.ParamNames, args, sig, st)
	}
	// default: a pure uninterpreted function of the function value and its arguments
	x.ctx.note("call through function value modelled as pure uninterpreted function: " + exprString(call.Fun) + " (contract key " + key + ")")
	var rs []Term
	for i := 0; i < sig.Results().Len(); i++ {
		rt := sig.Results().At(i).Type()
		sorts := []string{"Int"}
		as := []string{fv.S}
		for _, a := range args {
			sorts = append(sorts, a.Sort)
			as = append(as, a.S)
		}
		name := fmt.Sprintf("apply!%s!%d", sanitize(sig.String()), i)
		x.ctx.declOnce(name, fmt.Sprintf("(declare-fun %s (%s) %s)", name, strings.Join(sorts, " "), x.ctx.sortOf(rt)))
		v := x.define(st, "fv", Term{S: app(name, as...), Sort: x.ctx.sortOf(rt), T: rt})
		st.assume(x.typeInv(st, v))
		rs = append(rs, v)
	}
	return rs
}

// exprShape renders an expression with index expressions replaced by [_] (TransTab[state] -> TransTab[_]).
func exprShape(e ast.Expr) string {
	switch n := e.(type) {
	case *ast.IndexExpr:
		return exprShape(n.X) + "[_]"
	case *ast.SelectorExpr:
		return exprShape(n.X) + "." + n.Sel.Name
	case *ast.Ident:
		return n.Name
	case *ast.ParenExpr:
		return exprShape(n.X)
	}
	return "?"
}

func (x *Exec) callInterfaceMethod(call *ast.CallExpr, fn *types.Func, recv Term, sig *types.Signature, args []Term, st *State) []Term {
	key := funcKey(fn)
	if c := x.prog.Contracts.Funcs[key]; c != nil {
		r := recv
		return x.callContract(call, c, fn, &r, args, st)
	}
	if rs, ok := x.dispatchClosedWorld(call, fn, recv, sig, args, st); ok {
		return rs
	}
	x.ctx.note("interface method without contract (havoc of all memory): " + key)
	x.havocAll(st)
	st.unknownCallee = true
	var rs []Term
	for i := 0; i < sig.Results().Len(); i++ {
		rs = append(rs, x.freshOf(st, "ret", sig.Results().At(i).Type()))
	}
	return rs
}

// dispatchClosedWorld resolves a dynamic call by case analysis over the implementers of the interface found in the
// loaded program (closed world), using each implementer's own contract. Only side-effect free implementers
// (contracts with an empty assigns clause) are combined without a path split: the result is constrained per
// dynamic type. A nil receiver is an obligation.
type implInfo struct {
	t   types.Type
	m   *types.Func
	con *FuncContract
}

// pureImplementers lists the implementers of the interface method fn when every one of them has a contract with an
// empty assigns clause (ok=false otherwise).
func (x *Exec) pureImplementers(fn *types.Func) (impls []implInfo, ok bool) {
	recv := fn.Type().(*types.Signature).Recv()
	if recv == nil {
		return nil, false
	}
	iface, isI := recv.Type().Underlying().(*types.Interface)
	if !isI {
		return nil, false
	}
	type impl = implInfo
	for _, p := range x.prog.AllPkgs {
		if p.Types == nil {
			continue
		}
		sc := p.Types.Scope()
		for _, name := range sc.Names() {
			tn, ok := sc.Lookup(name).(*types.TypeName)
			if !ok || tn.IsAlias() {
				continue
			}
			if _, isI := tn.Type().Underlying().(*types.Interface); isI {
				continue
			}
			for _, t := range []types.Type{tn.Type(), types.NewPointer(tn.Type())} {
				if !types.Implements(t, iface) {
					continue
				}
				obj, _, _ := types.LookupFieldOrMethod(t, true, fn.Pkg(), fn.Name())
				m, ok := obj.(*types.Func)
				if !ok {
					continue
				}
				c := x.prog.Contracts.Funcs[funcKey(m)]
				if c == nil || len(c.Assigns) > 0 || !(c.HasAssigns || c.Pure || c.Trusted) {
					return nil, false
				}
				impls = append(impls, impl{t, m, c})
				break
			}
		}
	}
	if len(impls) == 0 {
		return nil, false
	}
	sort.Slice(impls, func(i, j int) bool { return types.TypeString(impls[i].t, nil) < types.TypeString(impls[j].t, nil) })
	return impls, true
}

func (x *Exec) dispatchClosedWorld(call *ast.CallExpr, fn *types.Func, recv Term, sig *types.Signature, args []Term, st *State) ([]Term, bool) {
	impls, ok := x.pureImplementers(fn)
	if !ok {
		return nil, false
	}
	var tags []string
	for _, im := range impls {
		tags = append(tags, app("=", app("i-tag", recv.S), fmt.Sprint(x.ctx.typeTag(im.t))))
	}
	x.oblige(st, "dispatch", fn.Name(), call, or(tags...))
	var rs []Term
	for i := 0; i < sig.Results().Len(); i++ {
		rs = append(rs, x.freshOf(st, "ret_"+fn.Name(), sig.Results().At(i).Type()))
	}
	names := []string{}
	for k, im := range impls {
		names = append(names, types.TypeString(im.t, nil))
		allocBefore := st.alloc
		st.guards = append(st.guards, tags[k])
		r := x.unboxPayload(app("i-val", recv.S), im.t)
		// value receiver of a pointer implementer and vice versa are not mixed: the receiver type is im.t
		ri := x.callContract(call, im.con, im.m, &r, args, st)
		for i := range ri {
			st.assume(app("=", rs[i].S, ri[i].S))
		}
		st.guards = st.guards[:len(st.guards)-1]
		if st.alloc.S != allocBefore.S {
			// the allocation counter only grows, whichever implementer ran
			st.assume(app("<=", allocBefore.S, st.alloc.S))
		}
	}
	x.ctx.note("dynamic call " + funcKey(fn) + " resolved over the closed world of implementers: " + strings.Join(names, ", "))
	return rs, true
}

func (x *Exec) evalConversion(call *ast.CallExpr, to types.Type, st *State) Term {
	v := x.eval(call.Args[0], st)
	from := v.T
	if v.S == "nil!" {
		return x.zeroOf(to)
	}
	toS := x.ctx.sortOf(to)
	if _, ok := to.Underlying().(*types.Interface); ok {
		return x.convert(st, v, to)
	}
	if v.Sort == "Int" && toS == "Int" {
		r := Term{S: v.S, Sort: "Int", T: to}
		if tb, ok := to.Underlying().(*types.Basic); ok && tb.Info()&types.IsInteger != 0 {
			x.checkRange(st, r, call)
		}
		return r
	}
	if v.Sort == toS && toS != "Slice" && toS != "Str" {
		v.T = to
		return v
	}
	if v.Sort == toS {
		// same representation (e.g. named slice types, string types)
		if from != nil && types.Identical(from.Underlying(), to.Underlying()) {
			v.T = to
			return v
		}
	}
	// string <-> []byte / []rune and friends: uninterpreted conversion functions
	name := "conv!" + sanitize(typeName(from)) + "!to!" + sanitize(typeName(to))
	x.ctx.declOnce(name, fmt.Sprintf("(declare-fun %s (%s) %s)", name, v.Sort, toS))
	if v.Sort == "Slice" {
		return x.convFromSlice(st, v, to)
	}
	r := Term{S: app(name, v.S), Sort: toS, T: to}
	if toS == "Slice" {
		// fresh slice whose content is a function of the source
		ref := x.allocRef(st, "convarr")
		rr := x.freshOf(st, "conv", to)
		st.assume(app("=", app("s-arr", rr.S), ref.S))
		st.assume(app("=", app("s-off", rr.S), "0"))
		if v.Sort == "Str" {
			// []byte(s) / []rune(s): the contents are "the decoding of s" (an uninterpreted relation, see spec decodes())
			elemT := to.Underlying().(*types.Slice).Elem()
			es := x.ctx.sortOf(elemT)
			rel := "decodes!" + sanitize(typeName(elemT))
			x.ctx.declOnce(rel, fmt.Sprintf("(declare-fun %s ((Array Int %s) Int Str) Bool)", rel, es))
			// a new allocation: the element memory gets a fresh inner array for it
			m := x.elemMemT(st, elemT)
			content := x.ctx.fresh("decoded", "(Array Int "+es+")")
			nm := x.define(st, "e_conv", Term{S: app("store", m.S, ref.S, content), Sort: m.Sort})
			st.mem[x.regElem(elemT)] = nm
			rrd := x.define(st, "sl", rr)
			x.setView(nm, rrd, Term{S: content, Sort: "(Array Int " + es + ")"})
			x.transferViews(m, nm, es, func(string) string { return "true" })
			st.assume(app(rel, content, app("s-len", rr.S), v.S))
			return rr
		}
		x.ctx.note("conversion " + typeName(from) + " -> " + typeName(to) + " yields a fresh slice with unconstrained contents")
		return rr
	}
	return r
}

// convFromSlice models string(b) / named conversions of a slice: an uninterpreted function of the contents.
func (x *Exec) convFromSlice(st *State, v Term, to types.Type) Term {
	toS := x.ctx.sortOf(to)
	elemT := v.T.Underlying().(*types.Slice).Elem()
	es := x.ctx.sortOf(elemT)
	name := "conv!" + sortID(es) + "!to!" + sortID(toS)
	x.ctx.declOnce(name, fmt.Sprintf("(declare-fun %s ((Array Int %s) Int) %s)", name, es, toS))
	var content string
	if vw, ok := x.viewOf(st, v, elemT); ok {
		content = vw.S
	} else {
		x.unsupported(nil, "conversion of a non-ground slice")
	}
	r := Term{S: app(name, content, app("s-len", v.S)), Sort: toS, T: to}
	if toS == "Str" {
		x.ctx.declOnce(name+"!len", fmt.Sprintf("(assert (forall ((a (Array Int %s)) (n Int)) (! (=> (>= n 0) (= (strlen (%s a n)) n)) :pattern ((%s a n)))))", es, name, name))
	}
	return x.define(st, "conv", r)
}

func (x *Exec) evalBuiltin(call *ast.CallExpr, name string, st *State) []Term {
	switch name {
	case "len", "cap":
		v := x.eval(call.Args[0], st)
		switch v.Sort {
		case "Slice":
			return []Term{{S: app("s-"+name, v.S), Sort: "Int", T: intT}}
		case "Str":
			return []Term{{S: app("strlen", v.S), Sort: "Int", T: intT}}
		}
		if a, ok := v.T.Underlying().(*types.Array); ok {
			return []Term{{S: x.arrayLen(a), Sort: "Int", T: intT}}
		}
		if mt, ok := v.T.Underlying().(*types.Map); ok {
			return []Term{x.mapLen(st, v, mt)}
		}
		x.unsupported(call, "%s of %s", name, v.T)
	case "panic":
		x.unsupported(call, "panic in expression context")
	case "append":
		return []Term{x.evalAppend(call, st)}
	case "copy":
		return []Term{x.evalCopy(call, st)}
	case "make":
		t := x.typeOf(call.Args[0])
		switch u := t.Underlying().(type) {
		case *types.Slice:
			ln := x.eval(call.Args[1], st)
			cp := ln
			if len(call.Args) > 2 {
				cp = x.eval(call.Args[2], st)
			}
			x.oblige(st, "bounds", "make", call, and(app("<=", "0", ln.S), app("<=", ln.S, cp.S)))
			r := x.allocRef(st, "mk")
			s := x.define(st, "made", Term{S: app("mk-slice", r.S, "0", ln.S, cp.S), Sort: "Slice", T: t})
			// zeroed contents
			es := x.ctx.sortOf(u.Elem())
			m := x.elemMemT(st, u.Elem())
			zarr := fmt.Sprintf("((as const (Array Int %s)) %s)", es, x.zeroOf(u.Elem()).S)
			if strings.Contains(zarr, "str!") {
				// cvc5 wants a value in a constant array: define the zeroed array by an axiom instead
				zarr = x.ctx.fresh("zeroed", "(Array Int "+es+")")
				x.ctx.declKeyed(zarr, fmt.Sprintf("(assert (forall ((k?z Int)) (! (= (select %s k?z) %s) :pattern ((select %s k?z)))))", zarr, x.zeroOf(u.Elem()).S, zarr))
			}
			nm := x.define(st, "e_make", Term{S: app("store", m.S, r.S, zarr), Sort: m.Sort})
			st.mem[x.regElem(u.Elem())] = nm
			x.setView(nm, s, Term{S: zarr, Sort: "(Array Int " + es + ")"})
			x.transferViews(m, nm, es, func(string) string { return "true" }) // a fresh array aliases nothing
			return []Term{s}
		case *types.Map:
			return []Term{x.newMap(st, u, t)}
		}
		x.unsupported(call, "make of %s", t)
	case "new":
		t := x.typeOf(call.Args[0])
		if s, stT := structOf(t); s != nil {
			r := x.allocRef(st, "new")
			p := Term{S: r.S, Sort: "Int", T: types.NewPointer(t)}
			x.storeStruct(st, p, s, stT, x.zeroOf(t))
			return []Term{p}
		}
		x.unsupported(call, "new of %s", t)
	case "min", "max":
		a, b := x.eval(call.Args[0], st), x.eval(call.Args[1], st)
		op := "<="
		if name == "max" {
			op = ">="
		}
		return []Term{{S: app("ite", app(op, a.S, b.S), a.S, b.S), Sort: "Int", T: x.typeOf(call)}}
	case "delete":
		m := x.eval(call.Args[0], st)
		mt := m.T.Underlying().(*types.Map)
		k := x.convert(st, x.eval(call.Args[1], st), mt.Key())
		_, khK, _, ks := x.mapKeys(mt)
		hm := x.memTerm(st, khK, "(Array Int (Array "+ks+" Bool))")
		// delete on a nil map is a no-op
		st.mem[khK] = x.define(st, "mh", Term{S: app("ite", app("=", m.S, "0"), hm.S, app("store", hm.S, m.S, app("store", app("select", hm.S, m.S), k.S, "false"))), Sort: hm.Sort})
		return nil
	}
	x.unsupported(call, "builtin %s", name)
	return nil
}

// evalAppend models the real append: in place when there is room, otherwise a fresh array.
// Both cases are covered by one conditional definition (no path split).
func (x *Exec) evalAppend(call *ast.CallExpr, st *State) Term {
	s := x.eval(call.Args[0], st)
	st_ := x.typeOf(call).Underlying().(*types.Slice)
	if s.S == "nil!" {
		s = x.zeroOf(x.typeOf(call))
	}
	if call.Ellipsis.IsValid() {
		x.unsupported(call, "append with ...")
	}
	elemT := st_.Elem()
	es := x.ctx.sortOf(elemT)
	key := x.regElem(elemT)
	for _, a := range call.Args[1:] {
		v := x.convert(st, x.eval(a, st), elemT)
		s = x.define(st, "sl", s)
		m := x.elemMemT(st, elemT)
		view, _ := x.viewOf(st, s, elemT)
		arr, off, ln, cp := app("s-arr", s.S), app("s-off", s.S), app("s-len", s.S), app("s-cap", s.S)
		room := app("<", ln, cp)
		fresh := x.allocRef(st, "grow")
		ncap := x.ctx.fresh("newcap", "Int")
		x.ctx.declKeyed(ncap, "(assert "+app(">", ncap, ln)+")")
		// content of the fresh array: a copy of the old elements
		farr := x.ctx.fresh("grown", "(Array Int "+es+")")
		x.ctx.declKeyed(farr, fmt.Sprintf("(assert (forall ((k?a Int)) (! (=> (and (<= 0 k?a) (< k?a %s)) (= (select %s k?a) (select %s k?a))) :pattern ((select %s k?a)))))", ln, farr, view.S, farr))
		inPlace := app("store", m.S, arr, app("store", app("select", m.S, arr), app("+", off, ln), v.S))
		grown := app("store", m.S, fresh.S, app("store", farr, ln, v.S))
		nm := x.define(st, "e_app", Term{S: app("ite", room, inPlace, grown), Sort: m.Sort})
		st.mem[key] = nm
		ns := app("ite", room, app("mk-slice", arr, off, app("+", ln, "1"), cp), app("mk-slice", fresh.S, "0", app("+", ln, "1"), ncap))
		s = x.define(st, "appended", Term{S: ns, Sort: "Slice", T: x.typeOf(call)})
		x.setView(nm, s, Term{S: app("store", app("ite", room, view.S, farr), ln, v.S), Sort: view.Sort})
		x.transferViews(m, nm, es, func(sl string) string { return not(app("=", app("s-arr", sl), arr)) })
	}
	return s
}

// evalCopy models copy(dst, src) with memmove semantics.
func (x *Exec) evalCopy(call *ast.CallExpr, st *State) Term {
	dst, src := x.eval(call.Args[0], st), x.eval(call.Args[1], st)
	if src.Sort != "Slice" || dst.Sort != "Slice" {
		x.unsupported(call, "copy from %s", src.T)
	}
	elemT := dst.T.Underlying().(*types.Slice).Elem()
	es := x.ctx.sortOf(elemT)
	key := x.regElem(elemT)
	dst, src = x.define(st, "sl", dst), x.define(st, "sl", src)
	vd, _ := x.viewOf(st, dst, elemT)
	vs, _ := x.viewOf(st, src, elemT)
	m := x.elemMemT(st, elemT)
	n := x.define(st, "ncopy", Term{S: app("ite", app("<=", app("s-len", dst.S), app("s-len", src.S)), app("s-len", dst.S), app("s-len", src.S)), Sort: "Int", T: intT})
	darr, doff := app("s-arr", dst.S), app("s-off", dst.S)
	sarr, soff := app("s-arr", src.S), app("s-off", src.S)
	// view of dst afterwards
	nv := x.ctx.fresh("copied", "(Array Int "+es+")")
	x.ctx.declKeyed(nv, fmt.Sprintf("(assert (forall ((k?c Int)) (! (= (select %s k?c) (ite (and (<= 0 k?c) (< k?c %s)) (select %s k?c) (select %s k?c))) :pattern ((select %s k?c)))))", nv, n.S, vs.S, vd.S, nv))
	// raw memory
	na := x.ctx.fresh("copiedraw", "(Array Int "+es+")")
	oldD := app("select", m.S, darr)
	oldS := app("select", m.S, sarr)
	x.ctx.declKeyed(na, fmt.Sprintf("(assert (forall ((k?c Int)) (! (= (select %s k?c) (ite (and (<= %s k?c) (< k?c (+ %s %s))) (select %s (+ %s (- k?c %s))) (select %s k?c))) :pattern ((select %s k?c)))))",
		na, doff, doff, n.S, oldS, soff, doff, oldD, na))
	nm := x.define(st, "e_copy", Term{S: app("store", m.S, darr, na), Sort: m.Sort})
	st.mem[key] = nm
	x.regView(nm.S, dst.S, nv)
	x.transferViews(m, nm, es, func(sl string) string { return not(app("=", app("s-arr", sl), darr)) })
	return n
}
