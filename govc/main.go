package main

import (
	"encoding/json"
	"flag"
	"fmt"
	"go/ast"
	"go/token"
	"go/types"
	"os"
	"regexp"
	"sort"
	"strings"
	"sync"
	"time"

	"golang.org/x/tools/go/packages"
)

type Report struct {
	Dir        string         `json:"dir"`
	Packages   []string       `json:"packages"`
	Contracts  []string       `json:"contract_files"`
	Funcs      []*FuncReport  `json:"functions"`
	Obls       []*Obligation  `json:"obligations"`
	Trusted    []string       `json:"trusted_contracts"`
	Unused     []string       `json:"contracts_without_function"`
	WallS      float64        `json:"wall_s"`
	SolverS    float64        `json:"solver_s"`
	Summary    map[string]int `json:"summary"`
	BySolver   map[string]int `json:"discharged_by_solver"`
}

func main() {
	dir := flag.String("dir", "/repo", "module directory to load")
	pkgsF := flag.String("pkgs", "", "comma separated package patterns")
	consF := flag.String("contracts", "", "comma separated contract files")
	funcsF := flag.String("funcs", "", "regexp on function keys to verify (default: all with a contract body)")
	propF := flag.String("prop", "", "only functions whose contract lists this property")
	out := flag.String("out", "", "JSON report path")
	timeout := flag.Int("timeout", 10, "per-obligation solver timeout (s)")
	tags := flag.String("tags", "verif", "build tags")
	dump := flag.String("dump", "", "directory to dump SMT queries of failing obligations")
	sweep := flag.Bool("sweep", false, "zero-annotation safety sweep: also verify functions without contracts")
	jobs := flag.Int("j", 16, "parallel solver jobs")
	flag.Parse()
	t0 := time.Now()

	cs := newContracts()
	for _, f := range strings.Split(*consF, ",") {
		if f = strings.TrimSpace(f); f != "" {
			if err := cs.load(f); err != nil {
				fmt.Fprintln(os.Stderr, "govc: contract error:", err)
				os.Exit(2)
			}
		}
	}
	cfg := &packages.Config{Mode: packages.NeedName | packages.NeedFiles | packages.NeedSyntax | packages.NeedTypes | packages.NeedTypesInfo | packages.NeedImports | packages.NeedDeps,
		Dir: *dir, BuildFlags: []string{"-tags=" + *tags}, Fset: token.NewFileSet()}
	pkgs, err := packages.Load(cfg, strings.Split(*pkgsF, ",")...)
	if err != nil {
		fmt.Fprintln(os.Stderr, "govc: load:", err)
		os.Exit(2)
	}
	prog := &Program{Pkgs: pkgs, AllPkgs: map[string]*packages.Package{}, Contracts: cs, Fset: cfg.Fset, Funcs: map[string]*FuncInfo{}}
	bad := false
	packages.Visit(pkgs, nil, func(p *packages.Package) {
		prog.AllPkgs[p.PkgPath] = p
	})
	rep := &Report{Dir: *dir, Contracts: cs.Files, Summary: map[string]int{}, BySolver: map[string]int{}}
	for _, p := range pkgs {
		rep.Packages = append(rep.Packages, p.PkgPath)
		for _, e := range p.Errors {
			fmt.Fprintln(os.Stderr, "govc: package error:", e)
			bad = true
		}
		for _, f := range p.Syntax {
			for _, d := range f.Decls {
				fd, ok := d.(*ast.FuncDecl)
				if !ok {
					continue
				}
				obj, _ := p.TypesInfo.Defs[fd.Name].(*types.Func)
				if obj == nil {
					continue
				}
				k := funcKey(obj)
				prog.Funcs[k] = &FuncInfo{Key: k, Decl: fd, Obj: obj, Pkg: p}
			}
		}
	}
	if bad {
		os.Exit(2)
	}
	var re *regexp.Regexp
	if *funcsF != "" {
		re = regexp.MustCompile(*funcsF)
	}
	var keys []string
	for k := range prog.Funcs {
		keys = append(keys, k)
	}
	sort.Strings(keys)
	for _, k := range keys {
		fi := prog.Funcs[k]
		con := cs.Funcs[k]
		if con == nil && !*sweep {
			continue
		}
		if con != nil && con.NoBody {
			continue
		}
		if re != nil && !re.MatchString(k) {
			continue
		}
		if *propF != "" && con != nil {
			has := false
			for _, p := range con.Props {
				if p == *propF {
					has = true
				}
			}
			if !has {
				continue
			}
		}
		fr := verifyFunc(prog, fi, con)
		rep.Funcs = append(rep.Funcs, fr)
		if fr.Status == "stale" {
			// contract clauses no longer resolve against the code: the obligations are meaningless, do not solve them
			fr.obls = nil
			continue
		}
		rep.Obls = append(rep.Obls, fr.obls...)
	}
	for k, c := range cs.Funcs {
		if c.NoBody {
			tag := "nobody"
			if c.Trusted {
				tag = "trusted"
			}
			rep.Trusted = append(rep.Trusted, k+" ("+tag+")")
		} else if _, ok := prog.Funcs[k]; !ok {
			rep.Unused = append(rep.Unused, k)
		}
	}
	sort.Strings(rep.Trusted)
	sort.Strings(rep.Unused)

	// solve
	type job struct{ o *Obligation }
	ch := make(chan *Obligation)
	var wg sync.WaitGroup
	var mu sync.Mutex
	coverDone := map[string]bool{}
	failedOf := map[string]int{}
	for i := 0; i < *jobs; i++ {
		wg.Add(1)
		go func() {
			defer wg.Done()
			for o := range ch {
				if o.Expect == "sat" {
					mu.Lock()
					done := coverDone[o.Name]
					mu.Unlock()
					if done {
						o.Status = "skipped"
						continue
					}
					// vacuity guard: the path condition must not be refutable
					r := runSolver(solvers[1], o.query, 3, false)
					o.Solver, o.Secs = r.Solver, r.Secs
					if r.Status == "unsat" {
						o.Status = "vacuous-path"
					} else {
						o.Status = "reachable(" + r.Status + ")"
						mu.Lock()
						coverDone[o.Name] = true
						mu.Unlock()
					}
					continue
				}
				tmo := *timeout
				if o.effort > tmo {
					tmo = o.effort
				}
				// once a function has eight undischarged obligations it is a failed function whatever the rest says:
				// the remaining ones get the first tier only (keeps a check on a broken tree from taking half an hour)
				mu.Lock()
				nf := failedOf[o.Func]
				mu.Unlock()
				if nf >= 8 && tmo > 3 {
					tmo = 3
				}
				if o.quickOnly && tmo > 3 {
					tmo = 3
				}
				best, all := solve(o.query, tmo)
				o.Solver, o.Secs = best.Solver, 0
				for _, a := range all {
					o.Secs += a.Secs
					o.Tried = append(o.Tried, fmt.Sprintf("%s:%s:%.2fs", a.Solver, a.Status, a.Secs))
				}
				switch best.Status {
				case "unsat":
					o.Status = "discharged"
				case "sat":
					o.Status = "refuted"
					o.Model = best.Model
				case "disagree":
					o.Status = "solver-disagreement"
				default:
					o.Status = "undecided(" + best.Status + ")"
					o.Detail = firstLines(best.Raw, 3)
				}
				if o.Status != "discharged" {
					mu.Lock()
					failedOf[o.Func]++
					mu.Unlock()
				}
			}
		}()
	}
	for _, o := range rep.Obls {
		ch <- o
	}
	close(ch)
	wg.Wait()
	// cover groups: a group is vacuous only if no member was reachable
	groups := map[string][]*Obligation{}
	for _, o := range rep.Obls {
		if o.Expect == "sat" {
			groups[o.Name] = append(groups[o.Name], o)
		}
	}
	for _, g := range groups {
		ok := false
		for _, o := range g {
			if strings.HasPrefix(o.Status, "reachable") {
				ok = true
			}
		}
		for _, o := range g {
			if ok && o.Status == "vacuous-path" {
				o.Status = "infeasible-path"
			}
		}
	}
	for _, o := range rep.Obls {
		rep.SolverS += o.Secs
		key := o.Status
		if i := strings.Index(key, "("); i >= 0 {
			key = key[:i]
		}
		rep.Summary[key]++
		if o.Status == "discharged" {
			rep.BySolver[o.Solver]++
		}
		if *dump != "" && o.Status != "discharged" && !strings.HasPrefix(o.Status, "reachable") && o.Status != "skipped" && o.Status != "infeasible-path" {
			os.MkdirAll(*dump, 0o755)
			fn := fmt.Sprintf("%s/%s_%d.smt2", *dump, sanitize(o.Name), len(o.Path))
			os.WriteFile(fn, []byte("; "+o.Name+" path="+o.Path+" pos="+o.Pos+"\n"+o.query), 0o644)
		}
	}
	for _, f := range rep.Funcs {
		if f.Status != "generated" {
			continue
		}
		f.Status = "verified"
		for _, o := range f.obls {
			if o.Expect == "unsat" && o.Status != "discharged" {
				f.Status = "failed"
			}
			if o.Expect == "sat" && o.Status == "vacuous-path" {
				f.Status = "failed"
			}
		}
	}
	rep.WallS = time.Since(t0).Seconds()
	if *out != "" {
		b, _ := json.MarshalIndent(rep, "", " ")
		if err := os.WriteFile(*out, b, 0o644); err != nil {
			fmt.Fprintln(os.Stderr, err)
			os.Exit(2)
		}
	}
	// console summary
	for _, f := range rep.Funcs {
		fmt.Printf("%-60s %-14s paths=%d obligations=%d %s\n", f.Key, f.Status, f.Paths, f.Obligations, f.Reason)
	}
	failed := 0
	seen := map[string]bool{}
	for _, o := range rep.Obls {
		bad := (o.Expect == "unsat" && o.Status != "discharged") || o.Status == "vacuous-path"
		if bad {
			failed++
			k := o.Name + " " + o.Status
			if !seen[k] {
				seen[k] = true
				fmt.Printf("  FAIL %s  %s  path=%s pos=%s %v\n", o.Name, o.Status, o.Path, o.Pos, o.Tried)
			}
		}
	}
	fmt.Printf("obligations=%d summary=%v by_solver=%v wall=%.1fs solver=%.1fs\n", len(rep.Obls), rep.Summary, rep.BySolver, rep.WallS, rep.SolverS)
	if failed > 0 {
		os.Exit(1)
	}
}

func firstLines(s string, n int) string {
	ls := strings.Split(s, "\n")
	if len(ls) > n {
		ls = ls[:n]
	}
	return strings.Join(ls, " | ")
}
