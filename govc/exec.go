package main

// Statement execution (forward symbolic execution with path splitting), loops cut by invariants,
// modular calls, function-level driver.

import (
	"fmt"
	"go/ast"
	"go/token"
	"go/types"
	"sort"
	"strings"
)

type frame struct {
	breakK    map[string]func(*State) // "" = innermost
	continueK map[string]func(*State)
	label     string
}

func (f *frame) child() *frame {
	n := &frame{breakK: map[string]func(*State){}, continueK: map[string]func(*State){}}
	if f != nil {
		for k, v := range f.breakK {
			n.breakK[k] = v
		}
		for k, v := range f.continueK {
			n.continueK[k] = v
		}
	}
	return n
}

const maxPaths = 20000

func (x *Exec) stmts(list []ast.Stmt, st *State, fr *frame, k func(*State)) {
	if st.dead {
		return
	}
	if len(list) == 0 {
		k(st)
		return
	}
	x.stmt(list[0], st, fr, func(s *State) { x.stmts(list[1:], s, fr, k) })
}

func (x *Exec) branch(st *State, cond string, tag string) *State {
	n := st.clone()
	if cond == "false" {
		n.dead = true
	}
	n.assume(cond)
	if tag != "" {
		n.tag(tag)
	}
	x.paths++
	if x.paths > maxPaths {
		panic(unsupported{"too many paths"})
	}
	return n
}

func (x *Exec) stmt(s ast.Stmt, st *State, fr *frame, k func(*State)) {
	if st.dead {
		return // syntactically infeasible path
	}
	switch n := s.(type) {
	case nil:
		k(st)
	case *ast.EmptyStmt:
		k(st)
	case *ast.BlockStmt:
		x.stmts(n.List, st, fr, k)
	case *ast.ExprStmt:
		if call, ok := n.X.(*ast.CallExpr); ok {
			if id, ok := ast.Unparen(call.Fun).(*ast.Ident); ok && id.Name == "panic" {
				if _, isB := x.info.Uses[id].(*types.Builtin); isB {
					x.doPanic(st, n)
					return
				}
			}
			if x.isExit(call) {
				x.doExit(st, call)
				return
			}
			x.evalCall(call, st)
			k(st)
			return
		}
		x.unsupported(n, "expression statement")
	case *ast.DeclStmt:
		gd := n.Decl.(*ast.GenDecl)
		if gd.Tok == token.VAR {
			for _, sp := range gd.Specs {
				vs := sp.(*ast.ValueSpec)
				for i, name := range vs.Names {
					obj := x.info.Defs[name]
					if obj == nil {
						continue
					}
					if i < len(vs.Values) {
						st.vars[obj] = x.define(st, name.Name, x.convert(st, x.eval(vs.Values[i], st), obj.Type()))
					} else {
						st.vars[obj] = x.zeroOf(obj.Type())
					}
				}
			}
		}
		k(st)
	case *ast.AssignStmt:
		x.assign(n, st)
		k(st)
	case *ast.IncDecStmt:
		v := x.eval(n.X, st)
		op := "+"
		if n.Tok == token.DEC {
			op = "-"
		}
		r := Term{S: arith(op, v.S, "1"), Sort: "Int", T: v.T}
		x.checkRange(st, r, n)
		x.store(n.X, r, st)
		k(st)
	case *ast.IfStmt:
		x.stmt(n.Init, st, fr, func(st *State) {
			c := x.eval(n.Cond, st)
			t := x.branch(st, c.S, "")
			f := x.branch(st, not(c.S), "")
			x.stmt(n.Body, t, fr, k)
			if n.Else != nil {
				x.stmt(n.Else, f, fr, k)
			} else {
				k(f)
			}
		})
	case *ast.SwitchStmt:
		x.switchStmt(n, st, fr, k)
	case *ast.TypeSwitchStmt:
		x.typeSwitch(n, st, fr, k)
	case *ast.ForStmt:
		x.forStmt(n, "", st, fr, k)
	case *ast.RangeStmt:
		x.rangeStmt(n, "", st, fr, k)
	case *ast.LabeledStmt:
		switch l := n.Stmt.(type) {
		case *ast.ForStmt:
			x.forStmt(l, n.Label.Name, st, fr, k)
		case *ast.RangeStmt:
			x.rangeStmt(l, n.Label.Name, st, fr, k)
		default:
			// a label on the first statement of the body: `goto L` restarts the function (see BranchStmt)
			if body := x.fi.Decl.Body; len(body.List) > 0 && body.List[0] == ast.Stmt(n) {
				x.restartLabel = n.Label.Name
				x.stmt(n.Stmt, st, fr, k)
				return
			}
			x.unsupported(n, "label on non-loop")
		}
	case *ast.ReturnStmt:
		x.doReturn(n, st)
	case *ast.BranchStmt:
		lbl := ""
		if n.Label != nil {
			lbl = n.Label.Name
		}
		switch n.Tok {
		case token.BREAK:
			if f, ok := fr.breakK[lbl]; ok {
				f(st)
				return
			}
		case token.CONTINUE:
			if f, ok := fr.continueK[lbl]; ok {
				f(st)
				return
			}
		case token.GOTO:
			if lbl != "" && lbl == x.restartLabel && x.con != nil && x.con.RestartDec != nil {
				x.restart(n, st)
				return
			}
		}
		x.unsupported(n, "branch %s", n.Tok)
	default:
		x.unsupported(s, "statement %T", s)
	}
}

func (x *Exec) isExit(call *ast.CallExpr) bool {
	fn := x.calleeOf(call)
	return fn != nil && fn.Pkg() != nil && fn.Pkg().Path() == "os" && fn.Name() == "Exit"
}

func (x *Exec) doExit(st *State, call *ast.CallExpr) {
	// os.Exit terminates: treated like a panic path for the contract ("exits" = does not return normally);
	// an exit_code clause constrains the status
	if x.con != nil && x.con.ExitCode != nil && len(call.Args) == 1 {
		code := x.eval(call.Args[0], st)
		env := x.specEnvAt(st, x.fi.Decl.Body.Lbrace+1)
		env.names = map[string]Term{"code": code}
		for _, p := range x.paramObjs {
			env.names[p.Name()] = x.old.vars[p]
		}
		if f, ok := x.clause(x.con.ExitCode, env); ok {
			x.oblige(st, "exit-code", x.con.ExitCode.Label, call, f)
		}
	}
	x.doPanic(st, call)
}

// store assigns v to the lvalue e.
func (x *Exec) store(e ast.Expr, v Term, st *State) {
	switch n := e.(type) {
	case *ast.ParenExpr:
		x.store(n.X, v, st)
	case *ast.Ident:
		if n.Name == "_" {
			return
		}
		obj := x.info.ObjectOf(n)
		vo, ok := obj.(*types.Var)
		if !ok {
			x.unsupported(n, "assignment to %s", n.Name)
		}
		v = x.convert(st, v, vo.Type())
		if vo.Pkg() != nil && vo.Parent() == vo.Pkg().Scope() {
			key := x.globalKey(vo)
			x.memTerm(st, key, x.ctx.sortOf(vo.Type()))
			st.mem[key] = x.define(st, n.Name, v)
			return
		}
		st.vars[vo] = x.define(st, n.Name, v)
	case *ast.SelectorExpr:
		sel, ok := x.info.Selections[n]
		if !ok {
			// package-level variable of another package
			if vo, ok := x.info.Uses[n.Sel].(*types.Var); ok {
				key := x.globalKey(vo)
				x.memTerm(st, key, x.ctx.sortOf(vo.Type()))
				st.mem[key] = x.define(st, n.Sel.Name, x.convert(st, v, vo.Type()))
				return
			}
			x.unsupported(n, "assignment to selector")
		}
		if len(sel.Index()) != 1 {
			x.unsupported(n, "assignment to promoted field")
		}
		f := sel.Obj().(*types.Var)
		v = x.convert(st, v, f.Type())
		baseT := x.typeOf(n.X)
		s, stT := structOf(baseT)
		if _, isPtr := baseT.Underlying().(*types.Pointer); isPtr {
			p := x.eval(n.X, st)
			x.oblige(st, "nil", "", n, not(app("=", p.S, "0")))
			x.storeField(st, p, stT, f, v)
			return
		}
		// field of a struct value: update the enclosing value
		base := x.eval(n.X, st)
		x.store(n.X, x.withField(base, s, f, v), st)
	case *ast.IndexExpr:
		baseT := x.typeOf(n.X)
		switch u := baseT.Underlying().(type) {
		case *types.Slice:
			b := x.eval(n.X, st)
			i := x.eval(n.Index, st)
			x.oblige(st, "bounds", "", n, and(app("<=", "0", i.S), app("<", i.S, app("s-len", b.S))))
			x.storeElem(st, b, i, u.Elem(), x.convert(st, v, u.Elem()))
		case *types.Array:
			b := x.eval(n.X, st)
			i := x.eval(n.Index, st)
			x.oblige(st, "bounds", "", n, and(app("<=", "0", i.S), app("<", i.S, x.arrayLen(u))))
			x.store(n.X, Term{S: app("store", b.S, i.S, x.convert(st, v, u.Elem()).S), Sort: b.Sort, T: b.T}, st)
		case *types.Map:
			m := x.eval(n.X, st)
			x.oblige(st, "nil", "map-write", n, not(app("=", m.S, "0")))
			kk := x.convert(st, x.eval(n.Index, st), u.Key())
			x.mapSet(st, m, u, kk, x.convert(st, v, u.Elem()))
		default:
			x.unsupported(n, "indexed assignment to %s", baseT)
		}
	case *ast.StarExpr:
		p := x.eval(n.X, st)
		if s, stT := structOf(p.T); s != nil {
			x.oblige(st, "nil", "", n, not(app("=", p.S, "0")))
			x.storeStruct(st, p, s, stT, v)
			return
		}
		x.unsupported(n, "assignment through pointer to %s", p.T)
	default:
		x.unsupported(e, "assignment target %T", e)
	}
}

func (x *Exec) assign(n *ast.AssignStmt, st *State) {
	if n.Tok != token.ASSIGN && n.Tok != token.DEFINE {
		// op-assign
		var op token.Token
		switch n.Tok {
		case token.ADD_ASSIGN:
			op = token.ADD
		case token.SUB_ASSIGN:
			op = token.SUB
		case token.MUL_ASSIGN:
			op = token.MUL
		case token.QUO_ASSIGN:
			op = token.QUO
		case token.REM_ASSIGN:
			op = token.REM
		default:
			x.unsupported(n, "assignment operator %s", n.Tok)
		}
		a, b := x.eval(n.Lhs[0], st), x.eval(n.Rhs[0], st)
		var r Term
		switch op {
		case token.ADD:
			if a.Sort == "Str" {
				x.ctx.declOnce("strcat", "(declare-fun strcat (Str Str) Str)\n(assert (forall ((a Str) (b Str)) (! (= (strlen (strcat a b)) (+ (strlen a) (strlen b))) :pattern ((strcat a b)))))")
				x.store(n.Lhs[0], Term{S: app("strcat", a.S, b.S), Sort: "Str", T: a.T}, st)
				return
			}
			r = Term{S: arith("+", a.S, b.S), Sort: "Int", T: a.T}
		case token.SUB:
			r = Term{S: arith("-", a.S, b.S), Sort: "Int", T: a.T}
		case token.MUL:
			r = Term{S: arith("*", a.S, b.S), Sort: "Int", T: a.T}
		case token.QUO:
			x.oblige(st, "div0", "", n, not(app("=", b.S, "0")))
			r = Term{S: goDiv(a.S, b.S), Sort: "Int", T: a.T}
		case token.REM:
			x.oblige(st, "div0", "", n, not(app("=", b.S, "0")))
			r = Term{S: goRem(a.S, b.S), Sort: "Int", T: a.T}
		}
		x.checkRange(st, r, n)
		x.store(n.Lhs[0], r, st)
		return
	}
	var vals []Term
	if len(n.Rhs) == 1 && len(n.Lhs) > 1 {
		switch r := ast.Unparen(n.Rhs[0]).(type) {
		case *ast.CallExpr:
			vals = x.evalCall(r, st)
		case *ast.TypeAssertExpr:
			v := x.eval(r.X, st)
			t := x.typeOf(r.Type)
			if _, isI := t.Underlying().(*types.Interface); isI {
				x.unsupported(n, "comma-ok assertion to interface")
			}
			okT := Term{S: app("=", app("i-tag", v.S), fmt.Sprint(x.ctx.typeTag(t))), Sort: "Bool", T: boolT}
			val := x.unboxPayload(app("i-val", v.S), t)
			val = Term{S: app("ite", okT.S, val.S, x.zeroOf(t).S), Sort: val.Sort, T: t}
			vals = []Term{val, okT}
		case *ast.IndexExpr:
			m := x.eval(r.X, st)
			mt, ok := m.T.Underlying().(*types.Map)
			if !ok {
				x.unsupported(n, "comma-ok index of non-map")
			}
			kk := x.convert(st, x.eval(r.Index, st), mt.Key())
			vals = []Term{x.define(st, "mapv", x.mapGetOrZero(st, m, mt, kk)), x.mapHas(st, m, mt, kk)}
		default:
			x.unsupported(n, "multi-value assignment from %T", r)
		}
		if len(vals) != len(n.Lhs) {
			x.unsupported(n, "assignment count mismatch")
		}
	} else {
		for _, r := range n.Rhs {
			vals = append(vals, x.eval(r, st))
		}
	}
	// Go evaluates index/pointer operands of the lhs before assigning; for the simple
	// targets in the subset, evaluating lvalues during the store is equivalent unless
	// the same statement also changes an operand — handle parallel assignment of plain
	// variables and field/index targets whose operands are not assigned in this statement.
	for i, l := range n.Lhs {
		if n.Tok == token.DEFINE {
			if id, ok := l.(*ast.Ident); ok && id.Name != "_" {
				if obj := x.info.Defs[id]; obj != nil {
					v := x.convert(st, vals[i], obj.Type())
					if v.T == nil {
						v.T = obj.Type()
					}
					st.vars[obj] = x.define(st, id.Name, v)
					continue
				}
			}
		}
		x.store(l, vals[i], st)
	}
}

func (x *Exec) switchStmt(n *ast.SwitchStmt, st *State, fr *frame, k func(*State)) {
	x.stmt(n.Init, st, fr, func(st *State) {
		var tag *Term
		if n.Tag != nil {
			t := x.eval(n.Tag, st)
			t = x.define(st, "tag", t)
			tag = &t
		}
		inner := fr.child()
		inner.breakK[""] = k
		var deflt *ast.CaseClause
		idx := 0
		// the case expressions are evaluated in order, each only when the earlier cases did not match
		rest := st
		for _, c := range n.Body.List {
			cc := c.(*ast.CaseClause)
			if cc.List == nil {
				deflt = cc
				continue
			}
			idx++
			if rest.dead {
				break
			}
			var alts []string
			for _, e := range cc.List {
				v := x.eval(e, rest)
				if tag != nil {
					a, b := *tag, v
					if a.Sort != b.Sort {
						if a.Sort == "Iface" {
							b = x.convert(rest, b, a.T)
						} else {
							x.unsupported(cc, "switch case sort mismatch")
						}
					}
					alts = append(alts, app("=", a.S, b.S))
				} else {
					alts = append(alts, v.S)
				}
			}
			cond := or(alts...)
			b := x.branch(rest, cond, fmt.Sprintf("case%d", idx))
			x.noFallthrough(cc)
			x.stmts(cc.Body, b, inner, k)
			rest = x.branch(rest, not(cond), "")
		}
		d := rest
		d.tag("default")
		if deflt != nil {
			x.noFallthrough(deflt)
			x.stmts(deflt.Body, d, inner, k)
		} else {
			k(d)
		}
	})
}

func (x *Exec) noFallthrough(cc *ast.CaseClause) {
	if len(cc.Body) > 0 {
		if b, ok := cc.Body[len(cc.Body)-1].(*ast.BranchStmt); ok && b.Tok == token.FALLTHROUGH {
			x.unsupported(cc, "fallthrough")
		}
	}
}

func (x *Exec) snapshotAt(kind string, n ast.Node, st *State) {
	if x.con == nil || x.con.Snapshots == nil {
		return
	}
	ord := x.stmtOrd[n]
	if name, ok := x.con.Snapshots[fmt.Sprintf("%s %d", kind, ord)]; ok {
		if st.snaps == nil {
			st.snaps = map[string]*State{}
		}
		st.snaps[name] = st.clone()
	}
}

func (x *Exec) typeSwitch(n *ast.TypeSwitchStmt, st *State, fr *frame, k func(*State)) {
	x.snapshotAt("typeswitch", n, st)
	x.stmt(n.Init, st, fr, func(st *State) {
		var subject ast.Expr
		var bind *ast.Ident
		switch a := n.Assign.(type) {
		case *ast.ExprStmt:
			subject = a.X.(*ast.TypeAssertExpr).X
		case *ast.AssignStmt:
			subject = a.Rhs[0].(*ast.TypeAssertExpr).X
			bind = a.Lhs[0].(*ast.Ident)
		}
		_ = bind
		v := x.define(st, "tsw", x.eval(subject, st))
		inner := fr.child()
		inner.breakK[""] = k
		var negs []string
		var deflt *ast.CaseClause
		idx := 0
		for _, c := range n.Body.List {
			cc := c.(*ast.CaseClause)
			if cc.List == nil {
				deflt = cc
				continue
			}
			idx++
			var alts []string
			var single types.Type
			for _, e := range cc.List {
				t := x.typeOf(e)
				if id, ok := e.(*ast.Ident); ok && id.Name == "nil" {
					alts = append(alts, app("=", app("i-tag", v.S), "0"))
					continue
				}
				if _, isI := t.Underlying().(*types.Interface); isI {
					x.unsupported(cc, "type switch on interface case")
				}
				alts = append(alts, app("=", app("i-tag", v.S), fmt.Sprint(x.ctx.typeTag(t))))
				single = t
			}
			cond := or(alts...)
			b := x.branch(st, and(append(append([]string(nil), negs...), cond)...), fmt.Sprintf("type%d", idx))
			if obj := x.info.Implicits[cc]; obj != nil {
				if len(cc.List) == 1 && single != nil {
					b.vars[obj] = x.unboxPayload(app("i-val", v.S), single)
				} else {
					b.vars[obj] = v
				}
			}
			x.stmts(cc.Body, b, inner, k)
			negs = append(negs, not(cond))
		}
		d := x.branch(st, and(negs...), "typedefault")
		if deflt != nil {
			if obj := x.info.Implicits[deflt]; obj != nil {
				d.vars[obj] = v
			}
			x.stmts(deflt.Body, d, inner, k)
		} else {
			k(d)
		}
	})
}

// ---- loops ----

type mapRangeInfo struct {
	ks   string
	has  func(k string) string
	vvar *types.Var
	cur  Term
}

type modSet struct {
	vars    map[types.Object]bool
	mem     map[string]bool
	allMem  bool
	allocs  bool
}

// modified computes what a loop may assign (syntactic over-approximation).
func (x *Exec) modified(nodes ...ast.Node) *modSet {
	ms := &modSet{vars: map[types.Object]bool{}, mem: map[string]bool{}}
	var lhs func(e ast.Expr)
	lhs = func(e ast.Expr) {
		switch n := e.(type) {
		case *ast.ParenExpr:
			lhs(n.X)
		case *ast.Ident:
			if obj, ok := x.info.ObjectOf(n).(*types.Var); ok {
				if obj.Pkg() != nil && obj.Parent() == obj.Pkg().Scope() {
					ms.mem[x.regGlobal(obj)] = true
				} else {
					ms.vars[obj] = true
				}
			}
		case *ast.SelectorExpr:
			if sel, ok := x.info.Selections[n]; ok {
				bt := x.typeOf(n.X)
				if _, isPtr := bt.Underlying().(*types.Pointer); isPtr {
					_, stT := structOf(bt)
					ms.mem[x.regField(stT, sel.Obj().(*types.Var))] = true
				} else {
					lhs(n.X)
				}
			} else if vo, ok := x.info.Uses[n.Sel].(*types.Var); ok {
				ms.mem[x.regGlobal(vo)] = true
			}
		case *ast.IndexExpr:
			bt := x.typeOf(n.X)
			switch u := bt.Underlying().(type) {
			case *types.Slice:
				ms.mem[x.regElem(u.Elem())] = true
			case *types.Array:
				lhs(n.X)
			case *types.Map:
				kv, kh := x.regMap(u)
				ms.mem[kv], ms.mem[kh] = true, true
			}
		case *ast.StarExpr:
			if s, stT := structOf(x.typeOf(n.X)); s != nil {
				for i := 0; i < s.NumFields(); i++ {
					ms.mem[x.regField(stT, s.Field(i))] = true
				}
			}
		}
	}
	for _, nd := range nodes {
		if nd == nil {
			continue
		}
		ast.Inspect(nd, func(n ast.Node) bool {
			switch s := n.(type) {
			case *ast.AssignStmt:
				for _, l := range s.Lhs {
					lhs(l)
				}
			case *ast.IncDecStmt:
				lhs(s.X)
			case *ast.RangeStmt:
				if s.Key != nil {
					lhs(s.Key)
				}
				if s.Value != nil {
					lhs(s.Value)
				}
			case *ast.CompositeLit, *ast.UnaryExpr:
				if u, ok := s.(*ast.UnaryExpr); ok && u.Op != token.AND {
					return true
				}
				ms.allocs = true
				if cl, ok := s.(*ast.CompositeLit); ok {
					if sl, ok := x.typeOf(cl).Underlying().(*types.Slice); ok {
						ms.mem[x.regElem(sl.Elem())] = true
					}
				}
			case *ast.CallExpr:
				if tv, ok := x.info.Types[s.Fun]; ok && tv.IsType() {
					return true
				}
				if id, ok := ast.Unparen(s.Fun).(*ast.Ident); ok {
					if b, ok := x.info.Uses[id].(*types.Builtin); ok {
						switch b.Name() {
						case "append", "copy":
							if sl, ok := x.typeOf(s.Args[0]).Underlying().(*types.Slice); ok {
								ms.mem[x.regElem(sl.Elem())] = true
							}
							ms.allocs = true
						case "make", "new":
							ms.allocs = true
							ms.allMem = true // conservative: fresh objects initialise several heaps
						}
						return true
					}
				}
				fn := x.calleeOf(s)
				if fn == nil {
					return true // function values are modelled as pure
				}
				key := funcKey(fn)
				if c := x.prog.Contracts.Funcs[key]; c != nil {
					if c.HasAssigns || c.Trusted || c.Pure {
						for _, a := range c.Assigns {
							for _, mk := range x.assignKeys(a.Expr, c, fn) {
								if mk == "*" {
									ms.allMem = true
								} else {
									ms.mem[mk] = true
								}
							}
						}
						ms.allocs = true
						return true
					}
					ms.allMem = true
					return true
				}
				if !pureExternals[key] {
					if _, ok := x.pureImplementers(fn); !ok {
						ms.allMem = true
					}
				}
			}
			return true
		})
	}
	return ms
}

// assignKeys maps an assigns-clause target of callee c to the memory keys it may touch.
func (x *Exec) assignKeys(e ast.Expr, c *FuncContract, fn *types.Func) []string {
	// Evaluate the static type of the lvalue using the callee's signature.
	switch n := e.(type) {
	case *ast.Ident:
		if n.Name == "everything" {
			return []string{"*"}
		}
	case *ast.CallExpr:
		if id, ok := n.Fun.(*ast.Ident); ok && id.Name == "elems" && len(n.Args) == 1 {
			if t := x.staticSpecType(n.Args[0], fn); t != nil {
				if sl, ok := t.Underlying().(*types.Slice); ok {
					return []string{x.regElem(sl.Elem())}
				}
			}
		}
		if id, ok := n.Fun.(*ast.Ident); ok && id.Name == "global" && len(n.Args) == 1 {
			return []string{"G!" + exprString(n.Args[0])}
		}
		if id, ok := n.Fun.(*ast.Ident); ok && id.Name == "mapof" && len(n.Args) == 1 {
			if t := x.staticSpecType(n.Args[0], fn); t != nil {
				if mt, ok := t.Underlying().(*types.Map); ok {
					kv, kh := x.regMap(mt)
					return []string{kv, kh}
				}
			}
		}
	case *ast.SelectorExpr:
		if t := x.staticSpecType(n.X, fn); t != nil {
			if s, stT := structOf(t); s != nil {
				if f := findField(s, n.Sel.Name); f != nil {
					return []string{x.regField(stT, f)}
				}
			}
		}
	}
	return []string{"*"}
}

// staticSpecType computes the Go type of a simple path expression over the callee's parameters.
func (x *Exec) staticSpecType(e ast.Expr, fn *types.Func) types.Type {
	sig := fn.Type().(*types.Signature)
	switch n := e.(type) {
	case *ast.Ident:
		if sig.Recv() != nil && sig.Recv().Name() == n.Name {
			return sig.Recv().Type()
		}
		for i := 0; i < sig.Params().Len(); i++ {
			if sig.Params().At(i).Name() == n.Name {
				return sig.Params().At(i).Type()
			}
		}
	case *ast.SelectorExpr:
		bt := x.staticSpecType(n.X, fn)
		if bt == nil {
			return nil
		}
		if s, _ := structOf(bt); s != nil {
			if f := findField(s, n.Sel.Name); f != nil {
				return f.Type()
			}
		}
	case *ast.IndexExpr:
		bt := x.staticSpecType(n.X, fn)
		if bt == nil {
			return nil
		}
		switch u := bt.Underlying().(type) {
		case *types.Map:
			return u.Elem()
		case *types.Slice:
			return u.Elem()
		}
	case *ast.ParenExpr:
		return x.staticSpecType(n.X, fn)
	case *ast.CallExpr:
		if id, ok := n.Fun.(*ast.Ident); ok && id.Name == "ite" && len(n.Args) == 3 {
			return x.staticSpecType(n.Args[1], fn)
		}
	}
	return nil
}

func (x *Exec) havoc(st *State, ms *modSet) {
	var objs []types.Object
	for o := range ms.vars {
		if _, ok := st.vars[o]; ok {
			objs = append(objs, o)
		}
	}
	sort.Slice(objs, func(i, j int) bool { return objs[i].Pos() < objs[j].Pos() })
	if ms.allMem {
		x.havocAll(st)
	} else {
		var keys []string
		for k := range ms.mem {
			keys = append(keys, k)
		}
		sort.Strings(keys)
		for _, k := range keys {
			if _, ok := st.mem[k]; !ok {
				continue // never touched before: memTerm will create the entry value... which would be wrong after a loop
			}
			was := st.mem[k]
			st.mem[k] = Term{S: x.ctx.fresh("hv_"+k, x.memSort[k]), Sort: x.memSort[k]}
			x.frameTransfer(k, was, st.mem[k])
		}
		if ms.allocs {
			na := x.ctx.fresh("alloc", "Int")
			st.pc = append(st.pc, app("<=", st.alloc.S, na)) // unguarded: the counter only grows, whether or not a guarded call ran
			st.alloc = Term{S: na, Sort: "Int"}
		}
	}
	for _, o := range objs {
		st.vars[o] = x.freshOf(st, o.Name(), o.Type())
	}
}

// useClauses assumes instances of trusted axiom schemata.
func (x *Exec) useClauses(cs []*Clause, env *SpecEnv, st *State) {
	for _, c := range cs {
		call, ok := c.Expr.(*ast.CallExpr)
		if !ok {
			x.stale = append(x.stale, fmt.Sprintf("%s:%d use clause must be an axiom-schema instance", c.File, c.Line))
			continue
		}
		id, _ := call.Fun.(*ast.Ident)
		if id == nil || x.prog.Contracts.Specs[id.Name] == nil || !x.prog.Contracts.Specs[id.Name].Schema {
			x.stale = append(x.stale, fmt.Sprintf("%s:%d use clause must name an axiomschema", c.File, c.Line))
			continue
		}
		e := *env
		e.inUse = true
		if f, ok := x.clause(c, &e); ok {
			st.assume(f)
		}
	}
}

func (x *Exec) loopContract(s ast.Stmt) (*LoopContract, int) {
	ord := x.loopOrd[s]
	if x.con != nil {
		if lc, ok := x.con.Loops[ord]; ok {
			return lc, ord
		}
	}
	return nil, ord
}

func (x *Exec) specEnvAt(st *State, pos token.Pos) *SpecEnv {
	return &SpecEnv{x: x, st: st, old: x.old, scope: x.fi.Pkg.Types.Scope(), pos: pos, pkg: x.fi.Pkg.Types, bound: map[string]Term{}, names: x.ghostVals}
}

// clause evaluates a contract clause to an SMT formula; a clause whose names no longer resolve is stale.
func (x *Exec) clause(c *Clause, env *SpecEnv) (f string, ok bool) {
	defer func() {
		if r := recover(); r != nil {
			if se, isStale := r.(staleErr); isStale {
				x.stale = append(x.stale, fmt.Sprintf("%s:%d [%s] %s", c.File, c.Line, c.Label, se.msg))
				f, ok = "true", false
				return
			}
			panic(r)
		}
	}()
	return env.boolean(c.Expr), true
}

// clauseProved: the formula to prove for clause c (opaque specs named by its reveal list expanded) and the formula to
// assume once it is proved (folded).
func (x *Exec) clauseProved(c *Clause, env *SpecEnv) (goal, keep string, ok bool) {
	keep, ok = x.clause(c, env)
	if !ok || len(c.Reveal) == 0 {
		return keep, keep, ok
	}
	e2 := *env
	e2.reveal = map[string]bool{}
	for _, n := range c.Reveal {
		e2.reveal[n] = true
	}
	goal, ok = x.clause(c, &e2)
	return goal, keep, ok
}

func (x *Exec) assertInv(lc *LoopContract, ord int, st *State, pos token.Pos, kind string, n ast.Node, headVariant []string) {
	if lc == nil {
		return
	}
	env := x.specEnvAt(st, pos)
	if kind == "inv-entry" {
		for _, c := range lc.EntryLemmas {
			if f, keep, ok := x.clauseProved(c, env); ok {
				x.oblige(st, fmt.Sprintf("entry-lemma@loop%d", ord), c.Label, n, f)
				st.assume(keep)
			}
		}
	}
	for _, c := range lc.Invariants {
		f, keep, ok := x.clauseProved(c, env)
		if kind != "inv-entry" {
			// an invariant is revealed where it is established; it is preserved in its folded form
			f, ok = x.clause(c, env)
			keep = f
		}
		if ok {
			x.oblige(st, fmt.Sprintf("%s@loop%d", kind, ord), c.Label, n, f)
			st.assume(keep)
		}
	}
	if headVariant != nil {
		// lexicographic decrease, components bounded below by 0
		var now []string
		for _, d := range lc.Decreases {
			t := func() (s string) {
				defer func() {
					if r := recover(); r != nil {
						if se, ok := r.(staleErr); ok {
							x.stale = append(x.stale, fmt.Sprintf("%s:%d decreases %s", d.File, d.Line, se.msg))
							s = ""
							return
						}
						panic(r)
					}
				}()
				return env.expr(d.Expr).S
			}()
			if t == "" {
				return
			}
			now = append(now, t)
		}
		var alts []string
		for i := range now {
			var eqs []string
			for j := 0; j < i; j++ {
				eqs = append(eqs, app("=", now[j], headVariant[j]))
			}
			alts = append(alts, and(append(eqs, app("<", now[i], headVariant[i]), app("<=", "0", headVariant[i]))...))
		}
		x.oblige(st, fmt.Sprintf("decreases@loop%d", ord), "", n, or(alts...))
	}
}

func (x *Exec) headVariant(lc *LoopContract, st *State, pos token.Pos) []string {
	if lc == nil || len(lc.Decreases) == 0 {
		return nil
	}
	env := x.specEnvAt(st, pos)
	var out []string
	for _, d := range lc.Decreases {
		ok := true
		var t Term
		func() {
			defer func() {
				if r := recover(); r != nil {
					if _, isStale := r.(staleErr); isStale {
						ok = false
						return
					}
					panic(r)
				}
			}()
			t = env.expr(d.Expr)
		}()
		if !ok {
			return nil
		}
		out = append(out, x.define(st, "variant", t).S)
	}
	return out
}

func (x *Exec) forStmt(n *ast.ForStmt, label string, st *State, fr *frame, k func(*State)) {
	lc, ord := x.loopContract(n)
	x.stmt(n.Init, st, fr, func(st *State) {
		if lc != nil && lc.Unroll > 0 {
			x.unrollFor(n, label, lc, ord, st, fr, k, 0)
			return
		}
		pos := n.Body.Lbrace + 1
		st.tag(fmt.Sprintf("loop%d", ord))
		entry := st.clone()
		entry.tag("entry")
		x.rememberEntry(st, ord, entry)
		if lc != nil {
			x.useClauses(lc.UseEntry, x.specEnvAt(entry, pos), entry)
		}
		x.assertInv(lc, ord, entry, pos, "inv-entry", n, nil)
		ms := x.modified(n.Body, n.Post, n.Cond)
		x.ensureMem(st, ms)
		head := st.clone()
		x.havoc(head, ms)
		if lc != nil {
			env := x.specEnvAt(head, pos)
			for _, c := range lc.Invariants {
				if f, ok := x.clause(c, env); ok {
					head.assume(f)
				}
			}
		}
		for _, g := range x.frameGoals(head, ms.mem) {
			head.assume(g[1])
		}
		if lc != nil {
			x.useClauses(lc.Use, x.specEnvAt(head, pos), head)
		}
		headSnap := head.clone()
		hv := x.headVariant(lc, head, pos)
		cond := mkBool(true)
		if n.Cond != nil {
			cond = x.eval(n.Cond, head)
		}
		body := x.branch(head, cond.S, "body")
		exit := x.branch(head, not(cond.S), "exit")
		x.cover(body, fmt.Sprintf("loop%d-body", ord), n)
		inner := fr.child()
		endIter := func(s *State) {
			x.stmt(n.Post, s, fr, func(s *State) {
				if lc != nil {
					env := x.specEnvAt(s, pos)
					env.head = headSnap
					x.useClauses(lc.UseEnd, env, s)
					for _, c := range lc.Steps {
						// a step clause may reveal opaque specs: proved unfolded, kept folded (as for invariants at loop entry)
						if f, keep, ok := x.clauseProved(c, env); ok {
							x.oblige(s, fmt.Sprintf("step@loop%d", ord), c.Label, n, f)
							s.assume(keep)
						}
					}
				}
				x.assertInv(lc, ord, s, pos, "inv-pres", n, hv)
				for _, g := range x.frameGoals(s, ms.mem) {
					x.oblige(s, fmt.Sprintf("frame-pres@loop%d", ord), g[0], n, g[1])
				}
			})
		}
		inner.breakK[""] = k
		inner.continueK[""] = endIter
		if label != "" {
			inner.breakK[label] = k
			inner.continueK[label] = endIter
		}
		x.stmt(n.Body, body, inner, endIter)
		k(exit)
	})
}

// rememberEntry keeps the state in which loop ord was reached (on this path) as a named snapshot: entry(N, e) in
// invariants of the loop and of the loops nested in it.
func (x *Exec) rememberEntry(st *State, ord int, entry *State) {
	if st.snaps == nil {
		st.snaps = map[string]*State{}
	}
	st.snaps[fmt.Sprintf("loop-entry-%d", ord)] = entry
	if entry.snaps == nil {
		entry.snaps = map[string]*State{}
	}
	entry.snaps[fmt.Sprintf("loop-entry-%d", ord)] = entry
}

func (x *Exec) unrollFor(n *ast.ForStmt, label string, lc *LoopContract, ord int, st *State, fr *frame, k func(*State), depth int) {
	cond := mkBool(true)
	if n.Cond != nil {
		cond = x.eval(n.Cond, st)
	}
	if depth >= lc.Unroll {
		// unwinding assertion: the loop must have finished
		x.oblige(st, fmt.Sprintf("unwind@loop%d", ord), "", n, not(cond.S))
		ex := st.clone()
		ex.assume(not(cond.S))
		k(ex)
		return
	}
	body := x.branch(st, cond.S, fmt.Sprintf("it%d", depth))
	exit := x.branch(st, not(cond.S), fmt.Sprintf("exit%d", depth))
	inner := fr.child()
	next := func(s *State) {
		x.stmt(n.Post, s, fr, func(s *State) { x.unrollFor(n, label, lc, ord, s, fr, k, depth+1) })
	}
	inner.breakK[""] = k
	inner.continueK[""] = next
	if label != "" {
		inner.breakK[label] = k
		inner.continueK[label] = next
	}
	x.stmt(n.Body, body, inner, next)
	k(exit)
}

// frameTransfer: when the function has an assigns clause, a havoced element memory keeps (by the frame invariant
// assumed at the loop head) every array that existed at entry and is not an assigns target; views carry over.
func (x *Exec) frameTransfer(k string, was, now Term) {
	if !strings.HasPrefix(k, "E!") || x.con == nil || !x.con.HasAssigns || x.old == nil {
		return
	}
	targets := x.assignTargets(x.con, x.old, x.selfNames())
	if targets["*"] != nil {
		return
	}
	es := strings.TrimSuffix(strings.TrimPrefix(x.memSort[k], "(Array Int (Array Int "), "))")
	refs := targets[k]
	x.transferViews(was, now, es, func(sl string) string {
		a := app("s-arr", sl)
		cs := []string{app("<", a, x.old.alloc.S)}
		for _, r := range refs {
			cs = append(cs, not(app("=", a, r)))
		}
		return and(cs...)
	})
}

// ensureMem creates the current value of every memory a loop may modify before it is havoced
// (a first touch inside the body must not alias the pre-loop value).
func (x *Exec) ensureMem(st *State, ms *modSet) {
	for k := range ms.mem {
		if _, ok := st.mem[k]; ok {
			continue
		}
		s, ok := x.memSort[k]
		if !ok {
			panic(unsupported{"memory key without registered sort: " + k})
		}
		x.memTerm(st, k, s)
	}
}

func (x *Exec) rangeStmt(n *ast.RangeStmt, label string, st *State, fr *frame, k func(*State)) {
	lc, ord := x.loopContract(n)
	coll := x.eval(n.X, st)
	coll = x.define(st, "rangeover", coll)
	var lenT string
	var elemAt func(st *State, i Term) Term
	var keyAt func(st *State) Term // map ranges: the key of the current iteration
	var mapRange *mapRangeInfo
	switch u := coll.T.Underlying().(type) {
	case *types.Map:
		// iteration over a map: an unknown number n >= 0 of iterations, n == 0 exactly when the map is empty; each
		// iteration sees some key present in the map (order and distinctness are not modelled: obligations must hold
		// for every order). The body must not modify the map.
		mt := u
		nn := x.ctx.fresh("range_n", "Int")
		lenT = nn
		ks := x.ctx.sortOf(mt.Key())
		st.assume(app("<=", "0", nn))
		st.assume(app("=", app("=", nn, "0"), fmt.Sprintf("(forall ((k?m %s)) (not %s))", ks, x.mapHas(st, coll, mt, Term{S: "k?m", Sort: ks}).S)))
		kv, kh := x.regMap(mt)
		msChk := x.modified(n.Body)
		_ = kv
		if msChk.allMem {
			x.unsupported(n, "range over a map while the body may modify any memory")
		}
		if msChk.mem[kh] {
			// the body writes maps of this type: accepted only if it does not syntactically write the ranged map; the
			// key set iterated is the one at loop start (a body that adds keys to the ranged map through an alias is outside the model)
			ranged := exprString(n.X)
			bad := false
			ast.Inspect(n.Body, func(nd ast.Node) bool {
				if as, ok := nd.(*ast.AssignStmt); ok {
					for _, l := range as.Lhs {
						if ix, ok := l.(*ast.IndexExpr); ok && exprString(ix.X) == ranged {
							bad = true
						}
					}
				}
				return true
			})
			if bad {
				x.unsupported(n, "range over a map that the body modifies")
			}
			x.ctx.note("range over " + ranged + ": the body writes other maps of the same type; assumed not to add keys to the ranged map through an alias")
		}
		startSt := st.clone()
		mapRange = &mapRangeInfo{ks: ks, has: func(k string) string { return x.mapHas(startSt, coll, mt, Term{S: k, Sort: ks}).S }}
		keyAt = func(s *State) Term {
			kk := Term{S: x.ctx.fresh("mapkey", ks), Sort: ks, T: mt.Key()}
			s.assume(x.mapHas(startSt, coll, mt, kk).S)
			s.assume(x.typeInv(s, kk))
			// the key has not been visited before; afterwards it has
			v := s.vars[mapRange.vvar]
			s.assume(not(app("select", v.S, kk.S)))
			mapRange.cur = kk
			return kk
		}
		elemAt = nil
		if name := fmt.Sprintf("range_n%d", ord); true {
			v, ok := x.synth[name]
			if !ok {
				v = types.NewVar(n.Pos(), x.fi.Pkg.Types, name, intT)
				x.synth[name] = v
			}
			st.vars[v] = Term{S: nn, Sort: "Int", T: intT}
		}
	case *types.Slice:
		lenT = app("s-len", coll.S)
		elemAt = func(st *State, i Term) Term { return x.loadElem(st, coll, i, u.Elem()) }
		// the ranged-over slice value is fixed when the loop starts: range_x<N> names it, range_n<N> its length
		for name, t := range map[string]Term{fmt.Sprintf("range_n%d", ord): {S: lenT, Sort: "Int", T: intT}, fmt.Sprintf("range_x%d", ord): coll} {
			v, ok := x.synth[name]
			if !ok {
				v = types.NewVar(n.Pos(), x.fi.Pkg.Types, name, t.T)
				x.synth[name] = v
			}
			st.vars[v] = t
		}
	case *types.Array:
		lenT = x.arrayLen(u)
		elemAt = func(st *State, i Term) Term {
			return Term{S: app("select", coll.S, i.S), Sort: x.ctx.sortOf(u.Elem()), T: u.Elem()}
		}
	case *types.Basic:
		if u.Info()&types.IsInteger != 0 {
			lenT = coll.S
			break
		}
		x.unsupported(n, "range over %s", coll.T)
	default:
		x.unsupported(n, "range over %s", coll.T)
	}
	pos := n.Body.Lbrace + 1
	st.tag(fmt.Sprintf("loop%d", ord))
	// hidden index
	zero := mkInt(0)
	setIter := func(s *State, i Term) {
		if keyAt != nil {
			mt := coll.T.Underlying().(*types.Map)
			kk := keyAt(s)
			if id, ok := n.Key.(*ast.Ident); ok && n.Key != nil && id.Name != "_" {
				if n.Tok == token.DEFINE {
					s.vars[x.info.Defs[id]] = kk
				} else {
					x.store(n.Key, kk, s)
				}
			}
			if n.Value != nil {
				if id, ok := n.Value.(*ast.Ident); ok && id.Name != "_" {
					v := x.define(s, id.Name, x.mapGet(s, coll, mt, kk))
					s.assume(x.typeInv(s, v))
					if n.Tok == token.DEFINE {
						s.vars[x.info.Defs[id]] = v
					} else {
						x.store(n.Value, v, s)
					}
				}
			}
			return
		}
		if n.Key != nil {
			if id, ok := n.Key.(*ast.Ident); ok && id.Name != "_" {
				if n.Tok == token.DEFINE {
					s.vars[x.info.Defs[id]] = Term{S: i.S, Sort: "Int", T: intT}
				} else {
					x.store(n.Key, i, s)
				}
			}
		}
		if n.Value != nil && elemAt != nil {
			if id, ok := n.Value.(*ast.Ident); ok && id.Name != "_" {
				v := x.define(s, id.Name, elemAt(s, i))
				s.assume(x.typeInv(s, v))
				if n.Tok == token.DEFINE {
					s.vars[x.info.Defs[id]] = v
				} else {
					x.store(n.Value, v, s)
				}
			}
		}
	}
	entry := st.clone()
	entry.tag("entry")
	x.rememberEntry(st, ord, entry)
	if lc != nil {
		e2 := entry.clone()
		x.bindRangeIndex(n, e2, zero)
		if mapRange != nil {
			name := fmt.Sprintf("range_v%d", ord)
			vv, ok := x.synth[name]
			if !ok {
				vv = types.NewVar(n.Pos(), x.fi.Pkg.Types, name, intT)
				x.synth[name] = vv
			}
			vs := "(Array " + mapRange.ks + " Bool)"
			e2.vars[vv] = Term{S: fmt.Sprintf("((as const %s) false)", vs), Sort: vs}
		}
		x.assertInv(lc, ord, e2, pos, "inv-entry", n, nil)
	}
	ms := x.modified(n.Body)
	// the key/value variables are set per iteration
	x.ensureMem(st, ms)
	head := st.clone()
	x.havoc(head, ms)
	i := Term{S: x.ctx.fresh("range_i", "Int"), Sort: "Int", T: intT}
	head.assume(and(app("<=", "0", i.S), app("<=", i.S, lenT)))
	x.bindRangeIndex(n, head, i)
	if mapRange != nil {
		// ghost set of the keys visited so far (visited(N, k) in invariants): a subset of the map's keys
		name := fmt.Sprintf("range_v%d", ord)
		vv, ok := x.synth[name]
		if !ok {
			vv = types.NewVar(n.Pos(), x.fi.Pkg.Types, name, intT)
			x.synth[name] = vv
		}
		mapRange.vvar = vv
		vs := "(Array " + mapRange.ks + " Bool)"
		vhead := x.ctx.fresh("visited", vs)
		head.vars[vv] = Term{S: vhead, Sort: vs}
		head.assume(fmt.Sprintf("(forall ((k?v %s)) (=> (select %s k?v) %s))", mapRange.ks, vhead, mapRange.has("k?v")))
		head.assume(app("=", app("=", i.S, "0"), fmt.Sprintf("(forall ((k?v %s)) (not (select %s k?v)))", mapRange.ks, vhead)))
	}
	if lc != nil {
		env := x.specEnvAt(head, pos)
		for _, c := range lc.Invariants {
			if f, ok := x.clause(c, env); ok {
				head.assume(f)
			}
		}
	}
	for _, g := range x.frameGoals(head, ms.mem) {
		head.assume(g[1])
	}
	if lc != nil {
		x.useClauses(lc.Use, x.specEnvAt(head, pos), head)
	}
	headSnap := head.clone()
	body := x.branch(head, app("<", i.S, lenT), "body")
	exit := x.branch(head, app("=", i.S, lenT), "exit")
	if mapRange != nil {
		v := head.vars[mapRange.vvar]
		exit.assume(fmt.Sprintf("(forall ((k?v %s)) (=> %s (select %s k?v)))", mapRange.ks, mapRange.has("k?v"), v.S))
		body.assume(fmt.Sprintf("(exists ((k?v %s)) (and %s (not (select %s k?v))))", mapRange.ks, mapRange.has("k?v"), v.S))
	}
	x.cover(body, fmt.Sprintf("loop%d-body", ord), n)
	setIter(body, i)
	inner := fr.child()
	endIter := func(s *State) {
		if mapRange != nil && mapRange.cur.S != "" {
			v := s.vars[mapRange.vvar]
			s.vars[mapRange.vvar] = Term{S: app("store", v.S, mapRange.cur.S, "true"), Sort: v.Sort}
		}
		if lc != nil {
			// step clauses: proved at the end of the iteration (the range index still names this iteration), then assumed;
			// they see the variables declared at the top level of the loop body
			env := x.specEnvAt(s, n.Body.Rbrace)
			env.head = headSnap
			for _, c := range lc.Steps {
				if f, keep, ok := x.clauseProved(c, env); ok {
					x.oblige(s, fmt.Sprintf("step@loop%d", ord), c.Label, n, f)
					s.assume(keep)
				}
			}
			nx := Term{S: app("+", i.S, "1"), Sort: "Int", T: intT}
			x.bindRangeIndex(n, s, nx)
			x.assertInv(lc, ord, s, pos, "inv-pres", n, nil)
		}
		for _, g := range x.frameGoals(s, ms.mem) {
			x.oblige(s, fmt.Sprintf("frame-pres@loop%d", ord), g[0], n, g[1])
		}
	}
	inner.breakK[""] = k
	inner.continueK[""] = endIter
	if label != "" {
		inner.breakK[label] = k
		inner.continueK[label] = endIter
	}
	x.stmt(n.Body, body, inner, endIter)
	// after the loop the key variable (if assigned with =) holds the last index; with := it is out of scope
	k(exit)
}

// bindRangeIndex makes the hidden iteration index visible to invariants: as the range key variable when
// there is one, and always under the ghost name range_i<ordinal>.
func (x *Exec) bindRangeIndex(n *ast.RangeStmt, st *State, i Term) {
	_, isMap := x.typeOf(n.X).Underlying().(*types.Map)
	if n.Key != nil && n.Tok == token.DEFINE && !isMap {
		if id, ok := n.Key.(*ast.Ident); ok && id.Name != "_" {
			st.vars[x.info.Defs[id]] = Term{S: i.S, Sort: "Int", T: intT}
		}
	}
	name := fmt.Sprintf("range_i%d", x.loopOrd[n])
	v, ok := x.synth[name]
	if !ok {
		v = types.NewVar(n.Pos(), x.fi.Pkg.Types, name, intT)
		x.synth[name] = v
	}
	st.vars[v] = Term{S: i.S, Sort: "Int", T: intT}
}

// ---- panics, returns ----

func (x *Exec) doPanic(st *State, n ast.Node) {
	if x.con != nil && x.con.MayPanic {
		return
	}
	if x.con != nil && x.con.Panics != nil {
		env := x.specEnvAt(x.old, x.fi.Decl.Body.Lbrace+1)
		env.st = x.old
		if f, ok := x.clause(x.con.Panics, env); ok {
			x.oblige(st, "panic-only-if", x.con.Panics.Label, n, f)
		}
		return
	}
	x.oblige(st, "no-panic", "", n, "false")
}

func (x *Exec) doReturn(n *ast.ReturnStmt, st *State) {
	sig := x.fi.Obj.Type().(*types.Signature)
	var vals []Term
	if len(n.Results) == 0 {
		for _, o := range x.results {
			vals = append(vals, st.vars[o])
		}
	} else if len(n.Results) == 1 && sig.Results().Len() > 1 {
		vals = x.evalCall(n.Results[0].(*ast.CallExpr), st)
	} else {
		for i, r := range n.Results {
			vals = append(vals, x.convert(st, x.eval(r, st), sig.Results().At(i).Type()))
		}
	}
	x.finish(st, vals, n)
}

// restart: `goto L` where L labels the first statement of the body, i.e. the function starts over with the current
// values of its parameters. Modelled as a tail call to the function's own contract: the preconditions must hold, the
// restart_decreases measure must be non-negative and smaller than at entry (termination), and what the contract
// ensures about that call is what the function returns.
func (x *Exec) restart(n ast.Node, st *State) {
	env := x.specEnvAt(st, x.fi.Decl.Body.Lbrace+1)
	oenv := x.specEnvAt(x.old, x.fi.Decl.Body.Lbrace+1)
	m1, ok1 := x.clauseTerm(x.con.RestartDec, env)
	m0, ok0 := x.clauseTerm(x.con.RestartDec, oenv)
	if ok1 && ok0 {
		x.oblige(st, "restart-decreases", x.con.RestartDec.Label, n, and(app("<=", "0", m1), app("<", m1, m0)))
	}
	sig := x.fi.Obj.Type().(*types.Signature)
	var recv *Term
	if rv := sig.Recv(); rv != nil {
		if t, ok := st.vars[rv]; ok {
			recv = &t
		} else if t, ok := x.ghostVals["this"]; ok {
			recv = &t
		}
	}
	var args []Term
	for i := 0; i < sig.Params().Len(); i++ {
		args = append(args, st.vars[sig.Params().At(i)])
	}
	rs := x.callContract(n, x.con, x.fi.Obj, recv, args, st)
	x.finish(st, rs, n)
}

func (x *Exec) clauseTerm(c *Clause, env *SpecEnv) (t string, ok bool) {
	defer func() {
		if r := recover(); r != nil {
			if se, isStale := r.(staleErr); isStale {
				x.stale = append(x.stale, fmt.Sprintf("%s:%d [%s] %s", c.File, c.Line, c.Label, se.msg))
				t, ok = "0", false
				return
			}
			panic(r)
		}
	}()
	return env.expr(c.Expr).S, true
}

// finish checks the postconditions and the frame at a normal return.
func (x *Exec) finish(st *State, vals []Term, n ast.Node) {
	x.endReached = true
	if x.con == nil {
		return
	}
	st.tag("return@" + x.posOf(n))
	x.coverEnd(st, n)
	env := x.specEnvAt(st, x.fi.Decl.Body.Lbrace+1)
	env.results = vals
	sig := x.fi.Obj.Type().(*types.Signature)
	for i := 0; i < sig.Results().Len(); i++ {
		env.resNames = append(env.resNames, sig.Results().At(i).Name())
	}
	// parameters keep their entry values in postconditions (Go passes by value)
	env.names = map[string]Term{}
	for k, v := range x.ghostVals {
		env.names[k] = v
	}
	for _, p := range x.paramObjs {
		env.names[p.Name()] = x.old.vars[p]
	}
	if x.con.Panics != nil {
		oenv := x.specEnvAt(x.old, x.fi.Decl.Body.Lbrace+1)
		if f, ok := x.clause(x.con.Panics, oenv); ok {
			x.oblige(st, "return-only-if-not", x.con.Panics.Label, n, not(f))
		}
	}
	for _, c := range x.con.PostOrder {
		if c.Kind == "use_end" {
			x.useClauses([]*Clause{c}, env, st)
			continue
		}
		if f, keep, ok := x.clauseProved(c, env); ok {
			x.oblige(st, "post", c.Label, n, f)
			st.assume(keep)
		}
	}
	x.checkFrame(st, n)
}

func (x *Exec) coverEnd(st *State, n ast.Node) {
	// every return statement must be reachable on at least one path (vacuity guard per return)
	x.cover(st, "return@"+x.posOf(n), n)
}

// checkFrame: every memory location not named in assigns keeps its entry value.
func (x *Exec) checkFrame(st *State, n ast.Node) {
	for _, g := range x.frameGoals(st, nil) {
		x.oblige(st, "frame", g[0], n, g[1])
	}
}

// frameGoals returns (key, formula) pairs stating that memory `key` differs from its entry value only at
// the locations the contract's assigns clause names (or at objects allocated since entry).
func (x *Exec) frameGoals(st *State, only map[string]bool) [][2]string {
	if x.con == nil || !x.con.HasAssigns {
		return nil
	}
	targets := x.assignTargets(x.con, x.old, x.selfNames())
	if targets["*"] != nil {
		return nil
	}
	var keys []string
	for k := range st.mem {
		if only == nil || only[k] {
			keys = append(keys, k)
		}
	}
	sort.Strings(keys)
	var out [][2]string
	for _, k := range keys {
		now := st.mem[k]
		was := x.memTerm(x.old, k, x.memSort[k])
		if now.S == was.S {
			continue
		}
		refs := targets[k]
		if strings.HasPrefix(k, "G!") {
			if refs == nil {
				out = append(out, [2]string{k, app("=", now.S, was.S)})
			}
			continue
		}
		var excl []string
		for _, r := range refs {
			excl = append(excl, or(app("=", "p?f", "0"), not(app("=", "p?f", r))))
		}
		goal := fmt.Sprintf("(forall ((p?f Int)) (! %s :pattern ((select %s p?f))))", imp(and(append(excl, app("<", "p?f", x.old.alloc.S), app("<=", "0", "p?f"))...), app("=", app("select", now.S, "p?f"), app("select", was.S, "p?f"))), now.S)
		out = append(out, [2]string{k, goal})
	}
	return out
}

func (x *Exec) selfNames() map[string]Term {
	names := map[string]Term{}
	for _, p := range x.paramObjs {
		names[p.Name()] = x.old.vars[p]
	}
	return names
}

// assignTargets evaluates the assigns clauses of contract c in state pre: memory key -> refs that may change.
func (x *Exec) assignTargets(c *FuncContract, pre *State, names map[string]Term) map[string][]string {
	out := map[string][]string{}
	env := &SpecEnv{x: x, st: pre, old: pre, names: names, bound: map[string]Term{}, pkg: x.fi.Pkg.Types}
	for _, a := range c.Assigns {
		func() {
			defer func() {
				if r := recover(); r != nil {
					if _, ok := r.(staleErr); ok {
						out["*"] = []string{}
						return
					}
					panic(r)
				}
			}()
			switch n := a.Expr.(type) {
			case *ast.Ident:
				if n.Name == "everything" {
					out["*"] = []string{}
					return
				}
			case *ast.CallExpr:
				if id, ok := n.Fun.(*ast.Ident); ok && id.Name == "elems" {
					s := env.expr(n.Args[0])
					if sl, ok := s.T.Underlying().(*types.Slice); ok {
						k := x.regElem(sl.Elem())
						out[k] = append(out[k], app("s-arr", s.S))
						return
					}
				}
				if id, ok := n.Fun.(*ast.Ident); ok && id.Name == "global" {
					out["G!"+exprString(n.Args[0])] = []string{}
					return
				}
				if id, ok := n.Fun.(*ast.Ident); ok && id.Name == "mapof" {
					m := env.expr(n.Args[0])
					if mt, ok := m.T.Underlying().(*types.Map); ok {
						kv, kh := x.regMap(mt)
						out[kv] = append(out[kv], m.S)
						out[kh] = append(out[kh], m.S)
						return
					}
				}
			case *ast.SelectorExpr:
				b := env.expr(n.X)
				if s, stT := structOf(b.T); s != nil {
					if f := findField(s, n.Sel.Name); f != nil {
						k := x.regField(stT, f)
						out[k] = append(out[k], b.S)
						return
					}
				}
			}
			out["*"] = []string{}
		}()
	}
	return out
}

// ---- modular calls ----

func (x *Exec) callContract(call ast.Node, c *FuncContract, fn *types.Func, recv *Term, args []Term, st *State) []Term {
	sig := fn.Type().(*types.Signature)
	names := map[string]Term{}
	if recv != nil && sig.Recv() != nil {
		rn := sig.Recv().Name()
		if rn == "" || rn == "_" {
			rn = "this"
		}
		r := *recv
		if r.T == nil {
			r.T = sig.Recv().Type()
		}
		names[rn] = r
		names["recv"] = r
	}
	var pnames []string
	for i := 0; i < sig.Params().Len(); i++ {
		pn := sig.Params().At(i).Name()
		if i < len(c.ParamNames) {
			pn = c.ParamNames[i]
		}
		pnames = append(pnames, pn)
	}
	return x.applyContract(call, c, funcKey(fn), names, pnames, args, sig, st)
}

func (x *Exec) applyContract(call ast.Node, c *FuncContract, key string, names map[string]Term, pnames []string, args []Term, sig *types.Signature, st *State) []Term {
	c.Uses++
	for i, a := range args {
		if i < len(pnames) && pnames[i] != "" && pnames[i] != "_" {
			if a.T == nil && i < sig.Params().Len() {
				a.T = sig.Params().At(i).Type()
			}
			names[pnames[i]] = a
		}
	}
	short := key
	if i := strings.LastIndex(short, "."); i >= 0 {
		short = short[i+1:]
	}
	calleePkg := x.fi.Pkg.Types
	if cp := x.pkgOfKey(key); cp != nil {
		calleePkg = cp
	}
	env := &SpecEnv{x: x, st: st, old: st, names: names, bound: map[string]Term{}, pkg: calleePkg}
	evalC := func(cl *Clause, e *SpecEnv) (string, bool) {
		f, ok := x.clause(cl, e)
		return f, ok
	}
	// the callee's ghost functions, defined over the pre-state of this call (visible to its requires and ensures)
	if len(c.Ghosts) > 0 {
		saved := x.ghosts
		x.ghosts = map[string]*ghostFun{}
		for k, v := range saved {
			x.ghosts[k] = v
		}
		defer func() { x.ghosts = saved }()
		genv := *env
		gpre := st.clone()
		genv.st, genv.old = gpre, gpre
		x.declareGhosts(c, &genv, st)
	}
	for _, r := range c.Requires {
		if f, ok := evalC(r, env); ok {
			x.oblige(st, "pre:"+short, r.Label, call, f)
			st.assume(f)
		}
	}
	if c.Panics != nil {
		if f, ok := evalC(c.Panics, env); ok {
			if x.con != nil && (x.con.Panics != nil || x.con.MayPanic) {
				// the caller may panic too: the panicking case ends this path under the caller's own panic clause
				pst := st.clone()
				pst.pc = append(pst.pc, pst.guards...)
				pst.guards = nil
				pst.pc = append(pst.pc, f)
				pst.tag("panic-in:" + short)
				x.doPanic(pst, call)
			} else {
				x.oblige(st, "callee-no-panic:"+short, c.Panics.Label, call, not(f))
			}
			st.assume(not(f))
		}
	}
	pre := st.clone()
	// frame: havoc what the callee may assign
	if c.HasAssigns || c.Trusted || c.Pure {
		targets := x.assignTargets(c, pre, names)
		if _, all := targets["*"]; all {
			x.havocAll(st)
		} else {
			var keys []string
			for k := range targets {
				keys = append(keys, k)
			}
			sort.Strings(keys)
			for _, k := range keys {
				refs := targets[k]
				was, ok := st.mem[k]
				if !ok {
					if s, ok2 := x.memSort[k]; ok2 {
						was = x.memTerm(st, k, s)
						pre.mem[k] = was
					} else {
						continue
					}
				}
				nm := x.ctx.fresh("post_"+k, x.memSort[k])
				if strings.HasPrefix(k, "G!") {
					st.mem[k] = Term{S: nm, Sort: was.Sort}
					continue
				}
				var excl []string
				for _, r := range refs {
					// the nil object is never written (a write through nil panics), whatever a target evaluates to
					excl = append(excl, or(app("=", "p?f", "0"), not(app("=", "p?f", r))))
				}
				st.pc = append(st.pc, fmt.Sprintf("(forall ((p?f Int)) (! %s :pattern ((select %s p?f))))", imp(and(append(excl, app("<", "p?f", pre.alloc.S))...), app("=", app("select", nm, "p?f"), app("select", was.S, "p?f"))), nm))
				st.mem[k] = Term{S: nm, Sort: was.Sort}
				if strings.HasPrefix(k, "E!") {
					es := strings.TrimSuffix(strings.TrimPrefix(x.memSort[k], "(Array Int (Array Int "), "))")
					rr, al := refs, pre.alloc.S
					x.transferViews(was, st.mem[k], es, func(sl string) string {
						a := app("s-arr", sl)
						cs := []string{app("<", a, al)}
						for _, r := range rr {
							cs = append(cs, not(app("=", a, r)))
						}
						return and(cs...)
					})
				}
			}
			if !c.Pure {
				na := x.ctx.fresh("alloc", "Int")
				st.pc = append(st.pc, app("<=", st.alloc.S, na)) // unguarded: the counter only grows, whether or not a guarded call ran
				st.alloc = Term{S: na, Sort: "Int"}
			}
		}
	} else {
		x.havocAll(st)
	}
	var rs []Term
	for i := 0; i < sig.Results().Len(); i++ {
		rs = append(rs, x.freshOf(st, "ret_"+short, sig.Results().At(i).Type()))
	}
	post := &SpecEnv{x: x, st: st, old: pre, names: names, bound: map[string]Term{}, pkg: calleePkg, results: rs}
	for i := 0; i < sig.Results().Len(); i++ {
		rn := sig.Results().At(i).Name()
		if i < len(c.ResNames) {
			rn = c.ResNames[i]
		}
		post.resNames = append(post.resNames, rn)
	}
	for _, e := range c.Ensures {
		if f, ok := evalC(e, post); ok {
			st.assume(f)
		}
	}
	return rs
}

func (x *Exec) pkgOfKey(key string) *types.Package {
	if fi, ok := x.prog.Funcs[key]; ok {
		return fi.Pkg.Types
	}
	pk := key
	if i := strings.Index(pk, "."); i >= 0 {
		pk = pk[:i]
	}
	for _, p := range x.prog.AllPkgs {
		if p.Types != nil && p.Types.Name() == pk {
			return p.Types
		}
	}
	return nil
}
