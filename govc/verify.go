package main

// Function-level driver: builds the entry state, runs the body, collects obligations.

import (
	"fmt"
	"go/ast"
	"go/constant"
	"go/types"
	"sort"
	"strings"
)

type FuncReport struct {
	Key         string   `json:"func"`
	Props       []string `json:"props,omitempty"`
	Status      string   `json:"status"` // verified | failed | out-of-subset | stale | nobody
	Reason      string   `json:"reason,omitempty"`
	Stale       []string `json:"stale,omitempty"`
	Paths       int      `json:"paths"`
	Obligations int      `json:"obligations"`
	Notes       []string `json:"notes,omitempty"`
	obls        []*Obligation
}

// numberStmts gives type switches (and other snapshot anchors) their ordinal within the function.
func numberStmts(body *ast.BlockStmt) map[ast.Node]int {
	m := map[ast.Node]int{}
	cnt := map[string]int{}
	ast.Inspect(body, func(nd ast.Node) bool {
		switch s := nd.(type) {
		case *ast.TypeSwitchStmt:
			cnt["typeswitch"]++
			m[s] = cnt["typeswitch"]
		case *ast.SwitchStmt:
			cnt["switch"]++
			m[s] = cnt["switch"]
		case *ast.FuncLit:
			return false
		}
		return true
	})
	return m
}

func numberLoops(body *ast.BlockStmt) map[ast.Stmt]int {
	m := map[ast.Stmt]int{}
	n := 0
	ast.Inspect(body, func(nd ast.Node) bool {
		switch s := nd.(type) {
		case *ast.ForStmt:
			n++
			m[s] = n
		case *ast.RangeStmt:
			n++
			m[s] = n
		case *ast.FuncLit:
			return false
		}
		return true
	})
	return m
}

func verifyFunc(prog *Program, fi *FuncInfo, con *FuncContract) (rep *FuncReport) {
	rep = &FuncReport{Key: fi.Key}
	if con != nil {
		rep.Props = con.Props
	}
	x := &Exec{ctx: newCtx(), prog: prog, fi: fi, info: fi.Pkg.TypesInfo, con: con, memSort: map[string]string{},
		ghosts: map[string]*ghostFun{}, synth: map[string]*types.Var{}, ghostVals: map[string]Term{}}
	defer func() {
		if r := recover(); r != nil {
			switch e := r.(type) {
			case unsupported:
				rep.Status = "out-of-subset"
				rep.Reason = e.msg
			case staleErr:
				rep.Status = "stale"
				rep.Reason = e.msg
			default:
				// an internal error of the generator on this function is a limitation of the machinery, never a verdict
				rep.Status = "out-of-subset"
				rep.Reason = fmt.Sprintf("govc internal error: %v", r)
			}
		}
		rep.Paths = x.paths
		rep.Stale = x.stale
		for n := range x.ctx.notes {
			rep.Notes = append(rep.Notes, n)
		}
		sort.Strings(rep.Notes)
		if rep.Status == "" {
			rep.obls = x.obls
			rep.Obligations = len(x.obls)
			rep.Status = "generated"
			if len(x.stale) > 0 {
				rep.Status = "stale"
				rep.Reason = strings.Join(x.stale, "; ")
				rep.obls = nil
			}
		}
	}()
	if fi.Decl.Body == nil {
		rep.Status = "nobody"
		return
	}
	// symbolic table sizes: the named constants listed by `symconst` are arbitrary integers >= 1, so that the proof
	// does not depend on the sizes of the carrier's tables
	x.symConst, x.symByVal = map[types.Object]string{}, map[int64]string{}
	amb := map[int64]bool{}
	for _, name := range prog.Contracts.SymConsts[fi.Pkg.Types.Name()] {
		if c, ok := fi.Pkg.Types.Scope().Lookup(name).(*types.Const); ok {
			if v, exact := constant.Int64Val(c.Val()); exact {
				k := "K!" + sanitize(name)
				x.ctx.declOnce(k, fmt.Sprintf("(declare-const %s Int)\n(assert (>= %s 1))", k, k))
				x.symConst[c] = k
				if _, dup := x.symByVal[v]; dup {
					amb[v] = true
				}
				x.symByVal[v] = k
			}
		}
	}
	for v := range amb {
		delete(x.symByVal, v) // two symbolic constants share this value on this carrier: array lengths stay concrete
		x.ctx.note(fmt.Sprintf("two symbolic constants have the value %d on this carrier: arrays of that length keep a concrete length", v))
	}
	x.loopOrd = numberLoops(fi.Decl.Body)
	x.stmtOrd = numberStmts(fi.Decl.Body)
	st := &State{vars: map[types.Object]Term{}, mem: map[string]Term{}}
	a0 := x.ctx.fresh("alloc0", "Int")
	st.alloc = Term{S: a0, Sort: "Int"}
	st.pc = append(st.pc, app("<=", "1", a0))
	// global axioms
	sig := fi.Obj.Type().(*types.Signature)
	addParam := func(v *types.Var) {
		if v == nil || v.Name() == "_" || v.Name() == "" {
			return
		}
		t := x.freshOf(st, v.Name(), v.Type())
		st.vars[v] = t
		x.paramObjs = append(x.paramObjs, v)
		x.inputs = append(x.inputs, t.S)
	}
	addParam(sig.Recv())
	if rv := sig.Recv(); rv != nil && (rv.Name() == "" || rv.Name() == "_") {
		// an unnamed receiver goes by "this" in the contract (as at call sites)
		t := x.freshOf(st, "this", rv.Type())
		x.ghostVals["this"] = t
		x.inputs = append(x.inputs, t.S)
	}
	for i := 0; i < sig.Params().Len(); i++ {
		addParam(sig.Params().At(i))
	}
	// receiver of a method is non-nil by convention only if the contract says so
	for i := 0; i < sig.Results().Len(); i++ {
		r := sig.Results().At(i)
		if r.Name() != "" && r.Name() != "_" {
			st.vars[r] = x.zeroOf(r.Type())
			x.results = append(x.results, r)
		}
	}
	x.old = st.clone()
	env := x.specEnvAt(st, fi.Decl.Body.Lbrace+1)
	// ghost global variables: register their sorts so that assigns clauses can havoc them
	for name, te := range prog.Contracts.GhostVars {
		func() {
			defer func() { recover() }()
			t := env.resolveType(te)
			x.memSort["G!ghost."+name] = x.ctx.sortOf(t)
		}()
	}
	// global axioms of the contract files
	for _, ax := range prog.Contracts.Axioms {
		if ax.Pkg != "" && ax.Pkg != fi.Pkg.Types.Name() {
			continue // an axiom about the tables of another package
		}
		genv := &SpecEnv{x: x, st: st, old: st, bound: map[string]Term{}, names: map[string]Term{}, pkg: fi.Pkg.Types}
		if f, ok := x.clause(ax, genv); ok {
			x.ctx.decl("(assert " + f + ")")
		}
	}
	if con != nil {
		// ghost (entry-state) definitions: conservative definitional extensions
		x.declareGhosts(con, env, st)
		for _, r := range con.Requires {
			if f, ok := x.clause(r, env); ok {
				st.assume(f)
			}
		}
		x.useClauses(con.Use, env, st)
		x.old.pc = append([]string(nil), st.pc...)
	}
	x.cover(st, "requires", fi.Decl)
	fr := (*frame)(nil).child()
	x.stmts(fi.Decl.Body.List, st, fr, func(s *State) {
		// fell off the end
		var vals []Term
		for _, o := range x.results {
			vals = append(vals, s.vars[o])
		}
		if sig.Results().Len() > 0 && len(x.results) == 0 {
			return // unreachable in well-typed Go (terminating statement)
		}
		x.finish(s, vals, fi.Decl.Body)
	})
	return
}

// declareGhosts introduces the ghost functions of contract c, defined over the state of env (the entry state
// of the function under verification, or the pre-state of a call). A definition f(args) = body with f fresh
// is a conservative extension, so assuming it is sound in both roles.
func (x *Exec) declareGhosts(c *FuncContract, env *SpecEnv, st *State) {
	defer func() {
		for _, ax := range c.GhostAx {
			if f, ok := x.clause(ax, env); ok {
				st.pc = append(st.pc, f)
			}
		}
	}()
	for _, g := range c.Ghosts {
		gf := &ghostFun{def: g}
		x.ctx.n++
		gf.name = fmt.Sprintf("ghost!%s!%d", sanitize(g.Name), x.ctx.n)
		var sorts []string
		benv := *env
		benv.bound = map[string]Term{}
		var bvars, bnames []string
		for i, p := range g.Params {
			pt := env.resolveType(p.Type)
			s := x.ctx.sortOf(pt)
			sorts = append(sorts, s)
			vn := fmt.Sprintf("g?%d", i)
			bvars = append(bvars, fmt.Sprintf("(%s %s)", vn, s))
			bnames = append(bnames, vn)
			benv.bound[p.Name] = Term{S: vn, Sort: s, T: pt}
		}
		rt := env.resolveType(g.Ret)
		gf.ret = x.ctx.sortOf(rt)
		gf.args = sorts
		x.ctx.decl(fmt.Sprintf("(declare-fun %s (%s) %s)", gf.name, strings.Join(sorts, " "), gf.ret))
		x.ghosts[g.Name] = gf
		if g.Body != nil {
			body := benv.expr(g.Body)
			if len(bvars) == 0 {
				st.pc = append(st.pc, app("=", gf.name, body.S))
			} else {
				ap := app(gf.name, bnames...)
				st.pc = append(st.pc, fmt.Sprintf("(forall (%s) (! (= %s %s) :pattern (%s)))", strings.Join(bvars, " "), ap, body.S, ap))
			}
		}
		x.ghosts[g.Name] = gf
	}
}
