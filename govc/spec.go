package main

// Translation of contract expressions (Go expression syntax + call-form logic) to SMT.

import (
	"sort"
	"fmt"
	"go/ast"
	"go/constant"
	"go/token"
	"go/types"
	"strconv"
	"strings"
)

type SpecEnv struct {
	x       *Exec
	st      *State
	old     *State
	bound   map[string]Term
	names   map[string]Term // explicit bindings (callee parameters at a call site, ghost values)
	scope   *types.Scope
	pos     token.Pos
	results []Term
	resNames []string
	pkg     *types.Package
	depth   int
	cur     *State // the current path state when st has been switched to a snapshot/old/head state
	head    *State // state at the head of the enclosing loop iteration (for head(e))
	inUse   bool   // evaluating a `use` clause: axiom schemata may be expanded
	nbind   int    // number of enclosing quantifiers (kept across spec applications)
	reveal  map[string]bool // opaque specs expanded in this evaluation (see Clause.Reveal)
}

func (e *SpecEnv) with(name string, t Term) *SpecEnv {
	n := *e
	n.bound = make(map[string]Term, len(e.bound)+1)
	for k, v := range e.bound {
		n.bound[k] = v
	}
	n.bound[name] = t
	n.nbind = e.nbind + 1
	return &n
}

func (e *SpecEnv) stale(format string, a ...interface{}) {
	panic(staleErr{fmt.Sprintf(format, a...)})
}

var intT = types.Typ[types.Int]
var boolT = types.Typ[types.Bool]

func (e *SpecEnv) boolean(ex ast.Expr) string {
	t := e.expr(ex)
	if t.Sort != "Bool" {
		e.stale("expected a boolean: %s", exprString(ex))
	}
	return t.S
}

func exprString(e ast.Expr) string { return types.ExprString(e) }

// resolveType resolves a type expression of a spec signature.
func (e *SpecEnv) resolveType(te ast.Expr) types.Type {
	switch t := te.(type) {
	case *ast.Ident:
		if o := types.Universe.Lookup(t.Name); o != nil {
			if tn, ok := o.(*types.TypeName); ok {
				return tn.Type()
			}
		}
		if e.pkg != nil {
			if o := e.pkg.Scope().Lookup(t.Name); o != nil {
				if tn, ok := o.(*types.TypeName); ok {
					return tn.Type()
				}
			}
		}
		e.stale("unknown type %s", t.Name)
	case *ast.ArrayType:
		if t.Len == nil {
			return types.NewSlice(e.resolveType(t.Elt))
		}
	case *ast.StarExpr:
		return types.NewPointer(e.resolveType(t.X))
	case *ast.SelectorExpr:
		if id, ok := t.X.(*ast.Ident); ok && e.pkg != nil {
			if id.Name == e.pkg.Name() {
				// the package referring to itself by name (a contract written for callers of this package)
				if o := e.pkg.Scope().Lookup(t.Sel.Name); o != nil {
					if tn, ok := o.(*types.TypeName); ok {
						return tn.Type()
					}
				}
			}
			if imp := e.importNamed(id.Name); imp != nil {
				if o := imp.Scope().Lookup(t.Sel.Name); o != nil {
					if tn, ok := o.(*types.TypeName); ok {
						return tn.Type()
					}
				}
			}
		}
	case *ast.InterfaceType:
		return types.NewInterfaceType(nil, nil)
	case *ast.IndexExpr:
		// seq[T]: a mathematical sequence (SMT array) of T, e.g. the contents of a slice
		if id, ok := t.X.(*ast.Ident); ok && id.Name == "seq" {
			return types.NewArray(e.resolveType(t.Index), 0)
		}
	}
	e.stale("unsupported type expression %s", exprString(te))
	return nil
}

// importNamed finds an imported package by the name it is referred to in the source (package name or import alias).
func (e *SpecEnv) importNamed(name string) *types.Package {
	if e.pkg == nil {
		return nil
	}
	for _, imp := range e.pkg.Imports() {
		if imp.Name() == name {
			return imp
		}
	}
	for _, p := range e.x.prog.AllPkgs {
		if p.Types != e.pkg {
			continue
		}
		for _, f := range p.Syntax {
			for _, is := range f.Imports {
				if is.Name != nil && is.Name.Name == name {
					path := strings.Trim(is.Path.Value, "\"")
					for _, imp := range e.pkg.Imports() {
						if imp.Path() == path {
							return imp
						}
					}
				}
			}
		}
	}
	return nil
}

func (e *SpecEnv) lookupIdent(name string) (Term, bool) {
	if t, ok := e.bound[name]; ok {
		return t, true
	}
	if t, ok := e.names[name]; ok {
		return t, true
	}
	switch name {
	case "true":
		return mkBool(true), true
	case "false":
		return mkBool(false), true
	case "nil":
		return Term{S: "nil!", Sort: "Int"}, true
	case "result":
		if len(e.results) >= 1 {
			return e.results[0], true
		}
	}
	if strings.HasPrefix(name, "result") {
		if n, err := strconv.Atoi(name[6:]); err == nil && n < len(e.results) {
			return e.results[n], true
		}
	}
	for i, rn := range e.resNames {
		if rn == name && i < len(e.results) {
			return e.results[i], true
		}
	}
	if te, ok := e.x.prog.Contracts.GhostVars[name]; ok {
		t := e.resolveType(te)
		key := "G!ghost." + name
		sort := e.x.ctx.sortOf(t)
		e.x.memSort[key] = sort
		m := e.x.memTerm(e.st, key, sort)
		return Term{S: m.S, Sort: sort, T: t}, true
	}
	if v, ok := e.x.synth[name]; ok {
		if t, ok := e.st.vars[v]; ok {
			return t, true
		}
	}
	if e.scope != nil {
		inner := e.scope.Innermost(e.pos)
		if inner == nil {
			inner = e.scope
		}
		if _, obj := inner.LookupParent(name, e.pos); obj != nil {
			if t, ok := e.objTerm(obj); ok {
				return t, true
			}
		}
	}
	if e.pkg != nil {
		if obj := e.pkg.Scope().Lookup(name); obj != nil {
			if t, ok := e.objTerm(obj); ok {
				return t, true
			}
		}
	}
	return Term{}, false
}

func (e *SpecEnv) objTerm(obj types.Object) (Term, bool) {
	switch o := obj.(type) {
	case *types.Var:
		if t, ok := e.st.vars[o]; ok {
			return t, true
		}
		if o.Parent() != nil && o.Pkg() != nil && o.Parent() == o.Pkg().Scope() {
			g := e.x.loadGlobal(e.st, o)
			e.x.ctx.declOnceKeyed("ti:"+g.S, g.S, "(assert "+e.x.typeInv(e.x.allocStateFor(e.st, g.S), g)+")")
			return g, true
		}
		return Term{}, false
	case *types.Const:
		if k, ok := e.x.symConst[o]; ok {
			return Term{S: k, Sort: "Int", T: o.Type()}, true
		}
		return constTerm(e.x.ctx, o.Val(), o.Type()), true
	}
	return Term{}, false
}

func constTerm(c *Ctx, v constant.Value, t types.Type) Term {
	switch v.Kind() {
	case constant.Bool:
		return Term{S: mkBool(constant.BoolVal(v)).S, Sort: "Bool", T: t}
	case constant.Int:
		s := v.ExactString()
		if strings.HasPrefix(s, "-") {
			s = "(- " + s[1:] + ")"
		}
		return Term{S: s, Sort: "Int", T: t}
	case constant.String:
		x := c.strLit(constant.StringVal(v))
		x.T = t
		return x
	}
	panic(unsupported{"constant kind " + v.Kind().String()})
}

func (e *SpecEnv) expr(ex ast.Expr) Term {
	x := e.x
	switch n := ex.(type) {
	case *ast.ParenExpr:
		return e.expr(n.X)
	case *ast.BasicLit:
		switch n.Kind {
		case token.INT:
			v := constant.MakeFromLiteral(n.Value, token.INT, 0)
			return constTerm(x.ctx, v, intT)
		case token.CHAR:
			v := constant.MakeFromLiteral(n.Value, token.CHAR, 0)
			return constTerm(x.ctx, v, types.Typ[types.Rune])
		case token.STRING:
			v := constant.MakeFromLiteral(n.Value, token.STRING, 0)
			return constTerm(x.ctx, v, types.Typ[types.String])
		}
	case *ast.Ident:
		if t, ok := e.lookupIdent(n.Name); ok {
			return t
		}
		if sd := e.findSpec(n.Name); sd != nil && len(sd.Params) == 0 {
			return e.applySpec(sd, nil)
		}
		e.stale("name %q does not resolve", n.Name)
	case *ast.UnaryExpr:
		a := e.expr(n.X)
		switch n.Op {
		case token.NOT:
			return Term{S: not(a.S), Sort: "Bool", T: boolT}
		case token.SUB:
			return Term{S: app("-", a.S), Sort: "Int", T: a.T}
		case token.ADD:
			return a
		}
	case *ast.BinaryExpr:
		return e.binary(n)
	case *ast.SelectorExpr:
		// package-qualified name?
		if id, ok := n.X.(*ast.Ident); ok {
			if _, isVal := e.lookupIdent(id.Name); !isVal && e.pkg != nil {
				if imp := e.importNamed(id.Name); imp != nil {
					if obj := imp.Scope().Lookup(n.Sel.Name); obj != nil {
						if t, ok := e.objTerm(obj); ok {
							return t
						}
					}
					e.stale("%s.%s does not resolve", id.Name, n.Sel.Name)
				}
			}
		}
		a := e.expr(n.X)
		return e.selectField(a, n.Sel.Name, ex)
	case *ast.IndexExpr:
		a := e.expr(n.X)
		i := e.expr(n.Index)
		return e.index(a, i, ex)
	case *ast.SliceExpr:
		a := e.expr(n.X)
		if a.Sort != "Slice" {
			e.stale("slicing a non-slice in %s", exprString(ex))
		}
		lo, hi := "0", app("s-len", a.S)
		if n.Low != nil {
			lo = e.expr(n.Low).S
		}
		if n.High != nil {
			hi = e.expr(n.High).S
		}
		r := Term{S: app("mk-slice", app("s-arr", a.S), app("+", app("s-off", a.S), lo), app("-", hi, lo), app("-", app("s-cap", a.S), lo)), Sort: "Slice", T: a.T}
		if !strings.Contains(r.S, "?") {
			r = x.define(e.st, "slice", r)
			x.resliceView(e.st, a, r, Term{S: lo, Sort: "Int"})
		}
		return r
	case *ast.StarExpr:
		a := e.expr(n.X)
		if a.T != nil {
			if p, ok := a.T.Underlying().(*types.Pointer); ok {
				if s, st := structOf(p.Elem()); s != nil {
					return x.loadStruct(e.st, a, s, st)
				}
			}
		}
		e.stale("unsupported dereference %s", exprString(ex))
	case *ast.CompositeLit:
		t := e.resolveType(n.Type)
		s, ok := t.Underlying().(*types.Struct)
		if !ok {
			e.stale("composite literal of non-struct in spec")
		}
		sn := x.ctx.sortOf(t)
		var args []string
		if len(n.Elts) != s.NumFields() {
			e.stale("spec composite literal must list all fields positionally")
		}
		for _, el := range n.Elts {
			args = append(args, e.expr(el).S)
		}
		return Term{S: app("mk!"+sn, args...), Sort: sn, T: t}
	case *ast.CallExpr:
		return e.call(n)
	}
	e.stale("unsupported spec expression %s", exprString(ex))
	return Term{}
}

func (e *SpecEnv) selectField(a Term, name string, ex ast.Expr) Term {
	x := e.x
	if a.T == nil {
		e.stale("selector on untyped value in %s", exprString(ex))
	}
	if a.Sort == "Slice" {
		switch name {
		case "arr!":
			return Term{S: app("s-arr", a.S), Sort: "Int"}
		}
	}
	s, st := structOf(a.T)
	if s == nil {
		e.stale("selector %s on non-struct %s", name, a.T)
	}
	f := findField(s, name)
	if f == nil {
		e.stale("no field %s in %s", name, st)
	}
	if _, isPtr := a.T.Underlying().(*types.Pointer); isPtr {
		v := x.loadField(e.st, a, st, f)
		if !strings.Contains(v.S, "?") {
			// name the loaded value and state that it is well-typed (a global fact about well-typed heaps)
			heap := x.memTerm(e.st, fieldKey(st, f.Name()), "(Array Int "+x.ctx.sortOf(f.Type())+")")
			v = x.define(e.st, f.Name(), v)
			x.ctx.declOnceKeyed("ti:"+v.S, v.S, "(assert "+x.typeInv(x.allocStateForRef(e.st, heap.S, a), v)+")")
		}
		return v
	}
	return x.fieldOfValue(a, f)
}

func (e *SpecEnv) index(a, i Term, ex ast.Expr) Term {
	x := e.x
	if a.T == nil {
		e.stale("index on untyped value in %s", exprString(ex))
	}
	switch u := a.T.Underlying().(type) {
	case *types.Slice:
		return x.loadElem(e.st, a, i, u.Elem())
	case *types.Array:
		return Term{S: app("select", a.S, i.S), Sort: x.ctx.sortOf(u.Elem()), T: u.Elem()}
	case *types.Basic:
		if u.Info()&types.IsString != 0 {
			return Term{S: app("strat", a.S, i.S), Sort: "Int", T: types.Typ[types.Byte]}
		}
	case *types.Map:
		return x.mapGet(e.st, a, u, i)
	}
	e.stale("unsupported index %s", exprString(ex))
	return Term{}
}

func (e *SpecEnv) binary(n *ast.BinaryExpr) Term {
	switch n.Op {
	case token.LAND:
		return Term{S: and(e.boolean(n.X), e.boolean(n.Y)), Sort: "Bool", T: boolT}
	case token.LOR:
		return Term{S: or(e.boolean(n.X), e.boolean(n.Y)), Sort: "Bool", T: boolT}
	}
	a, b := e.expr(n.X), e.expr(n.Y)
	// nil comparisons
	if a.S == "nil!" && b.S != "nil!" && b.T != nil {
		a = e.x.zeroOf(b.T)
	}
	if b.S == "nil!" && a.S != "nil!" && a.T != nil {
		b = e.x.zeroOf(a.T)
	}
	if n.Op == token.EQL || n.Op == token.NEQ {
		if a.Sort != b.Sort {
			// comparing interface with concrete value
			if a.Sort == "Iface" && b.T != nil {
				b = e.x.convert(e.st, b, a.T)
			} else if b.Sort == "Iface" && a.T != nil {
				a = e.x.convert(e.st, a, b.T)
			} else {
				e.stale("comparison of different sorts in %s", exprString(n))
			}
		}
		eq := app("=", a.S, b.S)
		if a.Sort == "Slice" && (isZeroSlice(a.S) || isZeroSlice(b.S)) {
			o := a
			if isZeroSlice(a.S) {
				o = b
			}
			eq = app("=", app("s-arr", o.S), "0")
		}
		if n.Op == token.NEQ {
			eq = not(eq)
		}
		return Term{S: eq, Sort: "Bool", T: boolT}
	}
	if a.Sort != "Int" || b.Sort != "Int" {
		e.stale("arithmetic on non-integers in %s", exprString(n))
	}
	rt := a.T
	if rt == nil {
		rt = b.T
	}
	switch n.Op {
	case token.ADD:
		return Term{S: app("+", a.S, b.S), Sort: "Int", T: rt}
	case token.SUB:
		return Term{S: app("-", a.S, b.S), Sort: "Int", T: rt}
	case token.MUL:
		return Term{S: app("*", a.S, b.S), Sort: "Int", T: rt}
	case token.QUO:
		return Term{S: goDiv(a.S, b.S), Sort: "Int", T: rt}
	case token.REM:
		return Term{S: goRem(a.S, b.S), Sort: "Int", T: rt}
	case token.LSS:
		return Term{S: app("<", a.S, b.S), Sort: "Bool", T: boolT}
	case token.LEQ:
		return Term{S: app("<=", a.S, b.S), Sort: "Bool", T: boolT}
	case token.GTR:
		return Term{S: app(">", a.S, b.S), Sort: "Bool", T: boolT}
	case token.GEQ:
		return Term{S: app(">=", a.S, b.S), Sort: "Bool", T: boolT}
	}
	e.stale("unsupported operator in %s", exprString(n))
	return Term{}
}

func isZeroSlice(s string) bool { return s == "(mk-slice 0 0 0 0)" }

// Go's truncated division in terms of SMT's floored/euclidean div.
func goDiv(a, b string) string {
	return app("ite", app(">=", a, "0"), app("div", a, b), app("-", app("div", app("-", a), b)))
}
func goRem(a, b string) string { return app("-", a, app("*", b, goDiv(a, b))) }

func isSelector(e ast.Expr) bool { _, ok := e.(*ast.SelectorExpr); return ok }

// tryType resolves a type expression, returning nil when it is not a type.
func (e *SpecEnv) tryType(te ast.Expr) (t types.Type) {
	defer func() {
		if r := recover(); r != nil {
			if _, ok := r.(staleErr); ok {
				t = nil
				return
			}
			panic(r)
		}
	}()
	switch te.(type) {
	case *ast.Ident, *ast.SelectorExpr:
		return e.resolveType(te)
	}
	return nil
}

func (e *SpecEnv) findSpec(name string) *SpecDef {
	if e.x.ghosts != nil {
		if g, ok := e.x.ghosts[name]; ok {
			return g.def
		}
	}
	return e.x.prog.Contracts.Specs[name]
}

func (e *SpecEnv) call(n *ast.CallExpr) Term {
	x := e.x
	fname := ""
	if id, ok := n.Fun.(*ast.Ident); ok {
		fname = id.Name
	}
	argN := func(k int) {
		if len(n.Args) < k {
			e.stale("%s needs %d arguments", fname, k)
		}
	}
	quant := func(q string, bounded bool) Term {
		// all(k, lo, hi, P [, trig...])  /  forall(r, P [, trig...])
		var v string
		var body ast.Expr
		var rng string
		var rest []ast.Expr
		if bounded {
			argN(4)
			id, ok := n.Args[0].(*ast.Ident)
			if !ok {
				e.stale("quantifier variable must be an identifier")
			}
			v = id.Name
			lo, hi := e.expr(n.Args[1]), e.expr(n.Args[2])
			body = n.Args[3]
			rest = n.Args[4:]
			c := fmt.Sprintf("%s?%d", v, e.depth)
			rng = and(app("<=", lo.S, c), app("<", c, hi.S))
		} else {
			argN(2)
			id, ok := n.Args[0].(*ast.Ident)
			if !ok {
				e.stale("quantifier variable must be an identifier")
			}
			v = id.Name
			body = n.Args[1]
			rest = n.Args[2:]
			rng = "true"
		}
		c := fmt.Sprintf("%s?%d", v, e.depth)
		inner := e.with(v, Term{S: c, Sort: "Int", T: intT})
		inner.depth = e.depth + 1
		b := inner.boolean(body)
		var pats []string
		for _, r := range rest {
			call, ok := r.(*ast.CallExpr)
			if !ok || exprString(call.Fun) != "trig" {
				e.stale("extra quantifier argument must be trig(...)")
			}
			var ts []string
			for _, a := range call.Args {
				ts = append(ts, inner.expr(a).S)
			}
			pats = append(pats, ":pattern ("+strings.Join(ts, " ")+")")
		}
		var f string
		if q == "forall" {
			f = imp(rng, b)
		} else {
			f = and(rng, b)
		}
		if len(pats) > 0 {
			f = "(! " + f + " " + strings.Join(pats, " ") + ")"
		}
		return Term{S: fmt.Sprintf("(%s ((%s Int)) %s)", q, c, f), Sort: "Bool", T: boolT}
	}
	multi := func(k int) Term {
		// forallK(v1..vk, P [, trig...])
		argN(k + 1)
		inner := e
		var binds []string
		for i := 0; i < k; i++ {
			id, ok := n.Args[i].(*ast.Ident)
			if !ok {
				e.stale("quantifier variable must be an identifier")
			}
			c := fmt.Sprintf("%s?%d", id.Name, e.depth)
			binds = append(binds, fmt.Sprintf("(%s Int)", c))
			inner = inner.with(id.Name, Term{S: c, Sort: "Int", T: intT})
		}
		inner.depth = e.depth + 1
		b := inner.boolean(n.Args[k])
		var pats []string
		for _, r := range n.Args[k+1:] {
			call, ok := r.(*ast.CallExpr)
			if !ok || exprString(call.Fun) != "trig" {
				e.stale("extra quantifier argument must be trig(...)")
			}
			var ts []string
			for _, a := range call.Args {
				ts = append(ts, inner.expr(a).S)
			}
			pats = append(pats, ":pattern ("+strings.Join(ts, " ")+")")
		}
		f := b
		if len(pats) > 0 {
			f = "(! " + f + " " + strings.Join(pats, " ") + ")"
		}
		return Term{S: fmt.Sprintf("(forall (%s) %s)", strings.Join(binds, " "), f), Sort: "Bool", T: boolT}
	}
	strQuant := func(q string) Term {
		// forallS(k, P) / existsS(k, P): k ranges over strings
		argN(2)
		id, ok := n.Args[0].(*ast.Ident)
		if !ok {
			e.stale("quantifier variable must be an identifier")
		}
		c := fmt.Sprintf("%s?%d", id.Name, e.depth)
		inner := e.with(id.Name, Term{S: c, Sort: "Str", T: types.Typ[types.String]})
		inner.depth = e.depth + 1
		b := inner.boolean(n.Args[1])
		var pats []string
		for _, r := range n.Args[2:] {
			call, ok := r.(*ast.CallExpr)
			if !ok || exprString(call.Fun) != "trig" {
				e.stale("extra quantifier argument must be trig(...)")
			}
			var ts []string
			for _, a := range call.Args {
				ts = append(ts, inner.expr(a).S)
			}
			pats = append(pats, ":pattern ("+strings.Join(ts, " ")+")")
		}
		if len(pats) > 0 {
			b = "(! " + b + " " + strings.Join(pats, " ") + ")"
		}
		return Term{S: fmt.Sprintf("(%s ((%s Str)) %s)", q, c, b), Sort: "Bool", T: boolT}
	}
	switch fname {
	case "forallS":
		return strQuant("forall")
	case "existsS":
		return strQuant("exists")
	case "forall2":
		return multi(2)
	case "forall3":
		return multi(3)
	case "all":
		return quant("forall", true)
	case "some":
		return quant("exists", true)
	case "forall":
		return quant("forall", false)
	case "exists":
		return quant("exists", false)
	case "imp":
		argN(2)
		return Term{S: imp(e.boolean(n.Args[0]), e.boolean(n.Args[1])), Sort: "Bool", T: boolT}
	case "iff":
		argN(2)
		return Term{S: app("=", e.boolean(n.Args[0]), e.boolean(n.Args[1])), Sort: "Bool", T: boolT}
	case "ite":
		argN(3)
		a, b := e.expr(n.Args[1]), e.expr(n.Args[2])
		if a.S == "nil!" && b.T != nil {
			a = x.zeroOf(b.T)
		}
		if b.S == "nil!" && a.T != nil {
			b = x.zeroOf(a.T)
		}
		return Term{S: app("ite", e.boolean(n.Args[0]), a.S, b.S), Sort: a.Sort, T: a.T}
	case "old":
		argN(1)
		if e.old == nil {
			e.stale("old() not available here")
		}
		o := *e
		o.st = e.old
		return o.expr(n.Args[0])
	case "at":
		// at(NAME, e): e evaluated in the named snapshot of this path. On a path that never passed the snapshot
		// point the value is unconstrained (a clause that needs it must guard it by a condition false on such paths).
		argN(2)
		id, ok := n.Args[0].(*ast.Ident)
		if !ok {
			e.stale("at(NAME, e): NAME must be an identifier")
		}
		cur := e.st
		if e.cur != nil {
			cur = e.cur
		}
		if cur.snaps == nil || cur.snaps[id.Name] == nil {
			t := e.expr(n.Args[1])
			c := x.ctx.fresh("nosnap_"+id.Name, t.Sort)
			return Term{S: c, Sort: t.Sort, T: t.T}
		}
		o := *e
		o.cur = cur
		o.st = cur.snaps[id.Name]
		return o.expr(n.Args[1])
	case "entry":
		// entry(N, e): e in the state in which loop N was reached on this path
		argN(2)
		lit, ok := n.Args[0].(*ast.BasicLit)
		if !ok {
			e.stale("entry(N, e): N must be a loop ordinal")
		}
		cur := e.st
		if e.cur != nil {
			cur = e.cur
		}
		snap := cur.snaps["loop-entry-"+lit.Value]
		if snap == nil {
			e.stale("entry(%s, ...): loop %s has not been reached here", lit.Value, lit.Value)
		}
		o := *e
		o.cur = cur
		o.st = snap
		return o.expr(n.Args[1])
	case "head":
		argN(1)
		if e.head == nil {
			e.stale("head() not available here")
		}
		o := *e
		o.st = e.head
		return o.expr(n.Args[0])
	case "store":
		// store(a, i, v): sequence a with element i replaced
		argN(3)
		a, i, v := e.expr(n.Args[0]), e.expr(n.Args[1]), e.expr(n.Args[2])
		if arr, ok := a.T.(*types.Array); ok && arr.Len() == 0 {
			if v.S == "nil!" {
				v = x.zeroOf(arr.Elem())
			}
			if v.Sort != x.ctx.sortOf(arr.Elem()) {
				v = x.convert(e.st, v, arr.Elem())
			}
			return Term{S: app("store", a.S, i.S, v.S), Sort: a.Sort, T: a.T}
		}
		e.stale("store() on a non-sequence")
	case "len":
		argN(1)
		a := e.expr(n.Args[0])
		switch a.Sort {
		case "Slice":
			return Term{S: app("s-len", a.S), Sort: "Int", T: intT}
		case "Str":
			return Term{S: app("strlen", a.S), Sort: "Int", T: intT}
		}
		if a.T != nil {
			if arr, ok := a.T.Underlying().(*types.Array); ok && arr.Len() > 0 {
				return Term{S: x.arrayLen(arr), Sort: "Int", T: intT}
			}
			if mt, ok := a.T.Underlying().(*types.Map); ok {
				return x.mapLen(e.st, a, mt)
			}
		}
		e.stale("len of %s", exprString(n.Args[0]))
	case "cap":
		argN(1)
		a := e.expr(n.Args[0])
		if a.Sort == "Slice" {
			return Term{S: app("s-cap", a.S), Sort: "Int", T: intT}
		}
	case "arr":
		argN(1)
		a := e.expr(n.Args[0])
		if a.Sort == "Slice" {
			return Term{S: app("s-arr", a.S), Sort: "Int", T: intT}
		}
	case "off":
		argN(1)
		a := e.expr(n.Args[0])
		if a.Sort == "Slice" {
			return Term{S: app("s-off", a.S), Sort: "Int", T: intT}
		}
	case "view":
		// view(s): the contents of slice s as a sequence, index 0 = s[0]
		argN(1)
		a := e.expr(n.Args[0])
		if a.Sort == "Slice" && a.T != nil {
			el := a.T.Underlying().(*types.Slice).Elem()
			if v, ok := x.viewOf(e.st, a, el); ok {
				return Term{S: v.S, Sort: v.Sort, T: types.NewArray(el, 0)}
			}
		}
		e.stale("view() of a non-ground or non-slice value")
	case "iface":
		// iface(v): the value v stored in an interface (dynamic type = static type of v)
		argN(1)
		a := e.expr(n.Args[0])
		if a.Sort == "Iface" {
			return a
		}
		if a.T == nil {
			e.stale("iface() of a value without a Go type")
		}
		return Term{S: app("mk-iface", fmt.Sprint(x.ctx.typeTag(a.T)), x.boxPayload(a)), Sort: "Iface", T: types.NewInterfaceType(nil, nil)}
	case "decodes":
		// decodes(b, s): slice b holds the bytes / runes of string s, as produced by the conversion []byte(s) / []rune(s)
		argN(2)
		a, str := e.expr(n.Args[0]), e.expr(n.Args[1])
		if a.Sort == "Slice" && a.T != nil && str.Sort == "Str" {
			el := a.T.Underlying().(*types.Slice).Elem()
			es := x.ctx.sortOf(el)
			rel := "decodes!" + sanitize(typeName(el))
			x.ctx.declOnce(rel, fmt.Sprintf("(declare-fun %s ((Array Int %s) Int Str) Bool)", rel, es))
			if v, ok := x.viewOf(e.st, a, el); ok {
				return Term{S: app(rel, v.S, app("s-len", a.S), str.S), Sort: "Bool", T: boolT}
			}
		}
		e.stale("decodes(slice, string)")
	case "raw":
		// raw(s): the whole backing array of slice s as a sequence indexed by absolute offset (s[k] = raw(s)[off(s)+k])
		argN(1)
		a := e.expr(n.Args[0])
		if a.Sort == "Slice" && a.T != nil {
			el := a.T.Underlying().(*types.Slice).Elem()
			es := x.ctx.sortOf(el)
			m := x.elemMemT(e.st, el)
			return Term{S: app("select", m.S, app("s-arr", a.S)), Sort: "(Array Int " + es + ")", T: types.NewArray(el, 0)}
		}
		e.stale("raw() of a non-slice")
	case "str":
		// str(b): the Go conversion string(b) of a byte slice
		argN(1)
		a := e.expr(n.Args[0])
		if a.Sort == "Slice" && a.T != nil {
			return x.convFromSlice(e.st, a, types.Typ[types.String])
		}
		e.stale("str() of a non-slice")
	case "alloc":
		if x.memReads != nil {
			x.memReads["alloc!"] = e.st.alloc
		}
		return e.st.alloc
	case "same":
		// same(mapof(m)) / same(elems(s)) / same(p.f): the whole memory of that kind is what it was in the old state
		argN(1)
		if e.old == nil {
			e.stale("same() not available here")
		}
		var keys []string
		switch a := n.Args[0].(type) {
		case *ast.CallExpr:
			id, _ := a.Fun.(*ast.Ident)
			if id == nil || len(a.Args) != 1 || (id.Name != "mapof" && id.Name != "elems") {
				e.stale("same(mapof(m)), same(elems(s)) or same(p.f)")
			}
			t := e.expr(a.Args[0])
			if t.T == nil {
				e.stale("same(): untyped argument")
			}
			switch u := t.T.Underlying().(type) {
			case *types.Map:
				kv, kh := x.regMap(u)
				keys = []string{kv, kh}
			case *types.Slice:
				keys = []string{x.regElem(u.Elem())}
			default:
				e.stale("same(): %s is neither a map nor a slice", t.T)
			}
		case *ast.SelectorExpr:
			t := e.expr(a.X)
			if t.T == nil {
				e.stale("same(): untyped argument")
			}
			sT, stT := structOf(t.T)
			if sT == nil {
				e.stale("same(): not a struct")
			}
			f := findField(sT, a.Sel.Name)
			if f == nil {
				e.stale("same(): no field %s", a.Sel.Name)
			}
			keys = []string{x.regField(stT, f)}
		default:
			e.stale("same(mapof(m)), same(elems(s)) or same(p.f)")
		}
		var cs []string
		for _, k := range keys {
			now := x.memTerm(e.st, k, x.memSort[k])
			was := x.memTerm(e.old, k, x.memSort[k])
			if now.S != was.S {
				cs = append(cs, app("=", now.S, was.S))
			}
		}
		return Term{S: and(cs...), Sort: "Bool", T: boolT}
	case "tag":
		argN(1)
		a := e.expr(n.Args[0])
		if a.Sort == "Iface" {
			return Term{S: app("i-tag", a.S), Sort: "Int", T: intT}
		}
	case "payload":
		argN(1)
		a := e.expr(n.Args[0])
		if a.Sort == "Iface" {
			return Term{S: app("i-val", a.S), Sort: "Int", T: intT}
		}
	case "typeis":
		// typeis(v, T): dynamic type of interface value v is T
		argN(2)
		a := e.expr(n.Args[0])
		t := e.resolveType(n.Args[1])
		return Term{S: app("=", app("i-tag", a.S), fmt.Sprint(x.ctx.typeTag(t))), Sort: "Bool", T: boolT}
	case "as":
		// as(v, T): payload of interface v viewed as T
		argN(2)
		a := e.expr(n.Args[0])
		t := e.resolveType(n.Args[1])
		return x.unboxPayload(app("i-val", a.S), t)
	case "visited":
		// visited(N, k): key k has been visited by the range-over-map loop with ordinal N
		argN(2)
		lit, ok := n.Args[0].(*ast.BasicLit)
		if !ok {
			e.stale("visited(N, k): N must be a loop ordinal")
		}
		v, ok := x.synth["range_v"+lit.Value]
		if !ok {
			e.stale("loop %s is not a range over a map", lit.Value)
		}
		vt, ok := e.st.vars[v]
		if !ok {
			e.stale("visited(%s, k) is not available here", lit.Value)
		}
		k := e.expr(n.Args[1])
		return Term{S: app("select", vt.S, k.S), Sort: "Bool", T: boolT}
	case "nonempty":
		// nonempty(m): the map has at least one key
		argN(1)
		a := e.expr(n.Args[0])
		if a.T != nil {
			if mt, ok := a.T.Underlying().(*types.Map); ok {
				ks := x.ctx.sortOf(mt.Key())
				return Term{S: fmt.Sprintf("(exists ((k?m %s)) %s)", ks, x.mapHas(e.st, a, mt, Term{S: "k?m", Sort: ks}).S), Sort: "Bool", T: boolT}
			}
		}
		e.stale("nonempty() of a non-map")
	case "has":
		// has(m, k): map membership
		argN(2)
		a, k := e.expr(n.Args[0]), e.expr(n.Args[1])
		if a.T != nil {
			if mt, ok := a.T.Underlying().(*types.Map); ok {
				return x.mapHas(e.st, a, mt, k)
			}
		}
	case "int", "rune", "byte", "uint32", "int32", "int64", "uint64", "uint8":
		argN(1)
		a := e.expr(n.Args[0])
		a.T = types.Universe.Lookup(fname).Type()
		return a
	}
	// conversion T(v) to a named non-interface type (e.g. action.Reduce(i))
	if len(n.Args) == 1 && fname != "" || isSelector(n.Fun) {
		if t := e.tryType(n.Fun); t != nil {
			if _, isI := t.Underlying().(*types.Interface); !isI && len(n.Args) == 1 {
				a := e.expr(n.Args[0])
				if a.Sort == x.ctx.sortOf(t) {
					a.T = t
					return a
				}
			}
		}
	}
	// spec function / ghost function
	if sd := e.findSpec(fname); sd != nil {
		var args []Term
		for _, a := range n.Args {
			args = append(args, e.expr(a))
		}
		return e.applySpec(sd, args)
	}
	// pure Go function with a contract? (uninterpreted application with contract facts is not supported in specs)
	e.stale("unknown spec function %s", exprString(n.Fun))
	return Term{}
}

// applySpec expands a defined spec (macro semantics, evaluated in the current state) or applies an uninterpreted one.
// specPkg: the package a spec was written for (its `//@ package` section), when it is loaded; type names in the
// spec's signature and body are resolved there, so a spec can be used from other packages.
func (e *SpecEnv) specPkg(sd *SpecDef) *types.Package {
	if sd.Pkg == "" || (e.pkg != nil && e.pkg.Name() == sd.Pkg) {
		return e.pkg
	}
	var found *types.Package
	for _, p := range e.x.prog.AllPkgs {
		if p.Types != nil && p.Types.Name() == sd.Pkg {
			if found != nil && found != p.Types {
				return e.pkg // ambiguous package name: keep the caller's view
			}
			found = p.Types
		}
	}
	if found == nil {
		return e.pkg
	}
	return found
}

func (e *SpecEnv) applySpec(sd *SpecDef, args []Term) Term {
	x := e.x
	if sp := e.specPkg(sd); sp != e.pkg {
		n := *e
		n.pkg = sp
		e = &n
	}
	if len(args) != len(sd.Params) {
		e.stale("spec %s: %d arguments, want %d", sd.Name, len(args), len(sd.Params))
	}
	retT := e.resolveType(sd.Ret)
	if sd.Schema && !e.inUse {
		e.stale("axiom schema %s may only be instantiated by a use clause", sd.Name)
	}
	sd.Uses++
	if g, ok := x.ghosts[sd.Name]; ok && g.def == sd {
		var as []string
		for _, a := range args {
			as = append(as, a.S)
		}
		if len(as) == 0 {
			return Term{S: g.name, Sort: g.ret, T: retT}
		}
		return Term{S: app(g.name, as...), Sort: g.ret, T: retT}
	}
	if sd.Body == nil {
		// uninterpreted, global
		name := "spec!" + sd.Name
		var sorts, as []string
		for i, p := range sd.Params {
			pt := e.resolveType(p.Type)
			sorts = append(sorts, x.ctx.sortOf(pt))
			a := args[i]
			if a.S == "nil!" {
				a = x.zeroOf(pt)
			}
			as = append(as, a.S)
		}
		rs := x.ctx.sortOf(retT)
		x.ctx.declOnce(name, fmt.Sprintf("(declare-fun %s (%s) %s)", name, strings.Join(sorts, " "), rs))
		if len(as) == 0 {
			return Term{S: name, Sort: rs, T: retT}
		}
		return Term{S: app(name, as...), Sort: rs, T: retT}
	}
	inner := *e
	inner.bound = map[string]Term{}
	for k, v := range e.bound {
		// quantifier variables of the caller stay visible only through argument terms
		_ = k
		_ = v
	}
	inner.names = map[string]Term{}
	for i, p := range sd.Params {
		pt := e.resolveType(p.Type)
		a := args[i]
		if a.S == "nil!" {
			a = x.zeroOf(pt)
		}
		a.T = pt
		inner.names[p.Name] = a
	}
	inner.scope = nil
	inner.results = nil
	inner.depth = e.depth + 8
	if !sd.Opaque || e.reveal[sd.Name] {
		r := inner.expr(sd.Body)
		r.T = retT
		return r
	}
	// opaque: expand to learn which memories the body reads (and, outside quantifiers, to supply the definition).
	// Under a quantifier the body is evaluated only once, on a scratch copy of the state with fresh constants for
	// the arguments: which memories are read does not depend on the arguments.
	saved := x.memReads
	x.memReads = map[string]Term{}
	var r Term
	reads := map[string]Term{}
	if e.nbind > 0 {
		if !sd.opaqueDone {
			scratch := inner
			scratch.st = e.st.clone()
			scratch.cur = nil
			scratch.names = map[string]Term{}
			for _, p := range sd.Params {
				a := inner.names[p.Name]
				c := x.ctx.fresh("opq_arg", a.Sort)
				scratch.names[p.Name] = Term{S: c, Sort: a.Sort, T: a.T}
			}
			scratch.nbind = 0
			scratch.bound = map[string]Term{}
			_ = scratch.expr(sd.Body)
			for k := range x.memReads {
				reads[k] = Term{}
			}
		}
	} else {
		r = inner.expr(sd.Body)
		reads = x.memReads
	}
	x.memReads = saved
	if saved != nil {
		for k, v := range reads {
			if v.S != "" {
				saved[k] = v
			}
		}
	}
	if !sd.opaqueDone {
		sd.opaqueDone = true
		for k := range reads {
			sd.opaqueKeys = append(sd.opaqueKeys, k)
		}
		sort.Strings(sd.opaqueKeys)
		sd.opaqueSort = map[string]string{}
		for _, k := range sd.opaqueKeys {
			sd.opaqueSort[k] = x.memSort[k]
		}
	} else {
		have := map[string]bool{}
		for _, k := range sd.opaqueKeys {
			have[k] = true
		}
		for k := range reads {
			if !have[k] {
				panic(unsupported{"opaque spec " + sd.Name + " reads memory " + k + " in one application and not in another"})
			}
		}
	}
	name := "opq!" + sd.Name
	var sorts, as []string
	for _, p := range sd.Params {
		a := inner.names[p.Name]
		sorts = append(sorts, a.Sort)
		as = append(as, a.S)
	}
	for _, k := range sd.opaqueKeys {
		var t Term
		if k == "alloc!" {
			t = e.st.alloc
		} else if rt, ok := reads[k]; ok && rt.S != "" {
			t = rt
		} else {
			ms := x.memSort[k]
			if ms == "" {
				ms = sd.opaqueSort[k]
			}
			t = x.memTerm(e.st, k, ms)
		}
		sorts = append(sorts, t.Sort)
		as = append(as, t.S)
	}
	rs := x.ctx.sortOf(retT)
	x.ctx.declOnce(name, fmt.Sprintf("(declare-fun %s (%s) %s)", name, strings.Join(sorts, " "), rs))
	appT := Term{S: app(name, as...), Sort: rs, T: retT}
	if e.nbind == 0 {
		cur := e.st
		if e.cur != nil {
			cur = e.cur
		}
		cur.assume(app("=", appT.S, r.S))
	}
	return appT
}
