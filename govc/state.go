package main

import (
	"fmt"
	"go/ast"
	"go/token"
	"go/types"
	"strings"

	"golang.org/x/tools/go/packages"
)

// Program is everything loaded: packages under verification and the contracts.
type Program struct {
	Pkgs      []*packages.Package
	AllPkgs   map[string]*packages.Package
	Contracts *Contracts
	Fset      *token.FileSet
	Funcs     map[string]*FuncInfo // key -> decl
}

type FuncInfo struct {
	Key  string
	Decl *ast.FuncDecl
	Obj  *types.Func
	Pkg  *packages.Package
}

func funcKey(f *types.Func) string {
	sig := f.Type().(*types.Signature)
	pk := ""
	if f.Pkg() != nil {
		pk = f.Pkg().Name()
	}
	if sig.Recv() == nil {
		return pk + "." + f.Name()
	}
	rt := sig.Recv().Type()
	star := ""
	if p, ok := rt.(*types.Pointer); ok {
		rt = p.Elem()
		star = "*"
	}
	name := "?"
	switch n := rt.(type) {
	case *types.Named:
		name = n.Obj().Name()
	case *types.Alias:
		name = n.Obj().Name()
	}
	return fmt.Sprintf("%s.(%s%s).%s", pk, star, name, f.Name())
}

// State is one symbolic path state.
type State struct {
	vars   map[types.Object]Term
	mem    map[string]Term
	pc     []string
	guards []string
	alloc  Term
	tags   []string
	snaps  map[string]*State // named snapshots (immutable), see contract clause `snapshot`
	dead   bool // path condition is syntactically false
	epoch  int // bumped by havoc-all: memories first touched afterwards are unrelated to their entry values
	// unknownCallee: this path has called code without a contract (all memory havoced): what follows can rarely be
	// proved, so its obligations get the first solver tier only (the function is reported as degraded anyway)
	unknownCallee bool
}

func (s *State) clone() *State {
	n := &State{vars: make(map[types.Object]Term, len(s.vars)), mem: make(map[string]Term, len(s.mem)), alloc: s.alloc, epoch: s.epoch, dead: s.dead, unknownCallee: s.unknownCallee}
	for k, v := range s.vars {
		n.vars[k] = v
	}
	for k, v := range s.mem {
		n.mem[k] = v
	}
	if s.snaps != nil {
		n.snaps = make(map[string]*State, len(s.snaps))
		for k, v := range s.snaps {
			n.snaps[k] = v
		}
	}
	n.pc = append([]string(nil), s.pc...)
	n.guards = append([]string(nil), s.guards...)
	n.tags = append([]string(nil), s.tags...)
	return n
}

func (s *State) assume(f string) {
	if f == "true" || f == "" {
		return
	}
	if len(s.guards) > 0 {
		f = imp(and(s.guards...), f)
	}
	s.pc = append(s.pc, f)
}

func (s *State) tag(t string) { s.tags = append(s.tags, t) }

type Obligation struct {
	Name    string   `json:"name"`
	Func    string   `json:"func"`
	Kind    string   `json:"kind"`
	Label   string   `json:"label,omitempty"`
	Path    string   `json:"path,omitempty"`
	Pos     string   `json:"pos,omitempty"`
	Props   []string `json:"props,omitempty"`
	Expect  string   `json:"expect"` // "unsat" (proof obligation) or "sat" (cover / vacuity guard)
	Status  string   `json:"status"`
	Solver  string   `json:"solver,omitempty"`
	Secs    float64  `json:"secs"`
	Model   string   `json:"model,omitempty"`
	Detail  string   `json:"detail,omitempty"`
	Size    int      `json:"smt_bytes"`
	query   string
	Tried   []string `json:"tried,omitempty"`
	Inputs  map[string]string `json:"inputs,omitempty"` // model values of named inputs (get-value)
	getvals []string
	quickOnly bool
	effort    int
}

// Exec verifies one function.
type Exec struct {
	ctx     *Ctx
	prog    *Program
	fi      *FuncInfo
	info    *types.Info
	con     *FuncContract
	old     *State
	obls    []*Obligation
	results []types.Object
	loopOrd map[ast.Stmt]int
	stmtOrd map[ast.Node]int
	paths   int
	maxPath int
	errs    []string
	ghosts  map[string]*ghostFun
	memSort map[string]string
	inputs  []string // names of SMT constants that are inputs (for model extraction)
	stale   []string
	axioms  []string
	endReached bool
	symConst   map[types.Object]string // named constants treated as symbolic (>= 1): object -> SMT constant
	symByVal   map[int64]string        // value -> SMT constant, for array types whose length is such a constant
	synth      map[string]*types.Var
	ghostVals  map[string]Term
	restartLabel string // label on the first statement of the body (target of a restarting goto)
	memReads   map[string]Term // non-nil while the body of an opaque spec is expanded: the memories it reads
	paramObjs  []*types.Var
	epochs     int
}

type ghostFun struct {
	name string
	args []string
	ret  string
	def  *SpecDef
}

type unsupported struct{ msg string }
type staleErr struct{ msg string }

func (x *Exec) unsupported(n ast.Node, format string, a ...interface{}) {
	pos := ""
	if n != nil {
		pos = x.prog.Fset.Position(n.Pos()).String() + ": "
	}
	panic(unsupported{pos + fmt.Sprintf(format, a...)})
}

func (x *Exec) posOf(n ast.Node) string {
	if n == nil {
		return ""
	}
	p := x.prog.Fset.Position(n.Pos())
	f := p.Filename
	if i := strings.LastIndex(f, "/"); i >= 0 {
		f = f[i+1:]
	}
	return fmt.Sprintf("%s:%d", f, p.Line)
}

// oblige records a proof obligation: pc ∧ guards ⇒ goal.
func (x *Exec) oblige(st *State, kind, label string, n ast.Node, goal string) {
	if st.dead {
		return
	}
	if len(st.guards) > 0 {
		goal = imp(and(st.guards...), goal)
	}
	if goal == "true" {
		return
	}
	name := x.fi.Key + "/" + kind
	if label != "" {
		name += "[" + label + "]"
	}
	o := &Obligation{Name: name, Func: x.fi.Key, Kind: kind, Label: label, Path: strings.Join(st.tags, "/"), Pos: x.posOf(n), Expect: "unsat"}
	if x.con != nil {
		o.Props = x.con.Props
	}
	var b strings.Builder
	for _, a := range st.pc {
		b.WriteString("(assert ")
		b.WriteString(a)
		b.WriteString(")\n")
	}
	b.WriteString("(assert (not ")
	b.WriteString(goal)
	b.WriteString("))\n(check-sat)\n")
	o.query = x.ctx.render(b.String()) + b.String()
	o.Size = len(o.query)
	o.getvals = append([]string(nil), x.inputs...)
	o.quickOnly = st.unknownCallee
	if x.con != nil {
		o.effort = x.con.Effort
	}
	x.obls = append(x.obls, o)
}

// cover records a reachability (vacuity) guard: pc must be satisfiable.
func (x *Exec) cover(st *State, label string, n ast.Node) {
	if st.dead {
		return
	}
	if x.con != nil {
		for _, a := range x.con.AllowDead {
			// (matched against the label and the path tags, so that a contract can name a branch - e.g. the default
			// arm of a type switch - instead of a line number)
			if strings.Contains(label, a) || strings.Contains(strings.Join(st.tags, "/"), a) {
				return // the contract declares this code dead under its preconditions
			}
		}
	}
	name := x.fi.Key + "/cover[" + label + "]"
	o := &Obligation{Name: name, Func: x.fi.Key, Kind: "cover", Label: label, Path: strings.Join(st.tags, "/"), Pos: x.posOf(n), Expect: "sat"}
	if x.con != nil {
		o.Props = x.con.Props
	}
	var b strings.Builder
	for _, a := range st.pc {
		b.WriteString("(assert " + a + ")\n")
	}
	b.WriteString("(check-sat)\n")
	o.query = x.ctx.render(b.String()) + b.String()
	o.Size = len(o.query)
	x.obls = append(x.obls, o)
}

// define introduces a fresh constant equal to t (keeps terms small).
func (x *Exec) define(st *State, hint string, t Term) Term {
	if len(t.S) <= 24 && !strings.Contains(t.S, " ") {
		return t
	}
	if t.S[0] == '(' && strings.HasPrefix(t.S, "(- ") && !strings.Contains(t.S[3:], " ") {
		return t // negative literal
	}
	if strings.Contains(t.S, "?") {
		return t // mentions a bound variable: cannot be named
	}
	// A definition c = t with c fresh is a conservative extension whatever the path, so it is asserted
	// globally and memoised on the defining term (the same header / memory gets the same name everywhere).
	if c, ok := x.ctx.defs[t.S]; ok {
		return Term{S: c, Sort: t.Sort, T: t.T}
	}
	c := x.ctx.fresh(hint, t.Sort)
	x.ctx.declKeyed(c, "(assert "+app("=", c, t.S)+")")
	x.ctx.defs[t.S] = c
	return Term{S: c, Sort: t.Sort, T: t.T}
}

// freshOf creates an unconstrained value of Go type t plus its type invariant.
func (x *Exec) freshOf(st *State, hint string, t types.Type) Term {
	c := x.ctx.fresh(hint, x.ctx.sortOf(t))
	v := Term{S: c, Sort: x.ctx.sortOf(t), T: t}
	st.assume(x.typeInv(st, v))
	return v
}

// typeInv is the invariant every well-typed value satisfies (ranges of sized ints, slice headers, allocated refs).
// entryState returns the state whose allocation bound applies to a value read from memory term m:
// values stored in the entry-state memories (M0!...) were allocated before the function started.
func (x *Exec) allocStateFor(st *State, memTerm string) *State {
	if strings.HasPrefix(memTerm, "M0!") && x.old != nil {
		return x.old
	}
	return st
}

// allocStateForRef: like allocStateFor for a value loaded through reference ref; objects allocated after entry
// (ref >= alloc0) may hold younger references even when the heap term is still the entry one (a callee with an
// empty assigns clause initialises the objects it allocates).
func (x *Exec) allocStateForRef(st *State, memTerm string, ref Term) *State {
	if strings.HasPrefix(memTerm, "M0!") && x.old != nil {
		n := *st
		n.alloc = Term{S: app("ite", app("<", ref.S, x.old.alloc.S), x.old.alloc.S, st.alloc.S), Sort: "Int"}
		return &n
	}
	return st
}

func (x *Exec) typeInv(st *State, v Term) string {
	if v.T == nil {
		return "true"
	}
	switch u := v.T.Underlying().(type) {
	case *types.Basic:
		if u.Info()&types.IsInteger != 0 {
			if lo, hi, ok := intRange(v.T); ok {
				if hi == "" {
					return app("<=", lo, v.S)
				}
				return and(app("<=", lo, v.S), app("<=", v.S, hi))
			}
		}
	case *types.Slice:
		al := "true"
		if st != nil {
			al = app("<", app("s-arr", v.S), st.alloc.S)
		}
		return and(app("<=", "0", app("s-arr", v.S)), al,
			app("<=", "0", app("s-off", v.S)), app("<=", "0", app("s-len", v.S)), app("<=", app("s-len", v.S), app("s-cap", v.S)),
			imp(app("=", app("s-arr", v.S), "0"), app("=", app("s-cap", v.S), "0")))
	case *types.Pointer, *types.Map:
		if st == nil {
			return app("<=", "0", v.S)
		}
		return and(app("<=", "0", v.S), app("<", v.S, st.alloc.S))
	case *types.Struct:
		var fs []string
		sn := x.ctx.sortOf(v.T)
		for i := 0; i < u.NumFields(); i++ {
			f := u.Field(i)
			fv := Term{S: app(fieldSel(sn, f.Name()), v.S), Sort: x.ctx.sortOf(f.Type()), T: f.Type()}
			fs = append(fs, x.typeInv(st, fv))
		}
		return and(fs...)
	case *types.Interface:
		return app("<=", "0", app("i-tag", v.S))
	}
	return "true"
}

// ---- memory ----

func (x *Exec) memTerm(st *State, key, sort string) Term {
	if x.memReads != nil {
		defer func() { x.memReads[key] = st.mem[key] }()
	}
	if t, ok := st.mem[key]; ok {
		return t
	}
	// first touch in this epoch: an arbitrary value; the name is a function of (epoch, key) so that
	// states of the same epoch (e.g. the entry state used by old()) agree on it.
	name := fmt.Sprintf("M%d!%s", st.epoch, sanitize(key))
	x.ctx.declOnce(name, fmt.Sprintf("(declare-const %s %s)", name, sort))
	t := Term{S: name, Sort: sort}
	x.memSort[key] = sort
	st.mem[key] = t
	return t
}

func structOf(t types.Type) (*types.Struct, types.Type) {
	if p, ok := t.Underlying().(*types.Pointer); ok {
		t = p.Elem()
	}
	s, _ := t.Underlying().(*types.Struct)
	return s, t
}

func typeName(t types.Type) string {
	switch n := t.(type) {
	case *types.Named:
		if n.Obj().Pkg() != nil {
			return n.Obj().Pkg().Name() + "." + n.Obj().Name()
		}
		return n.Obj().Name()
	case *types.Alias:
		return typeName(types.Unalias(n))
	case *types.Pointer:
		return "*" + typeName(n.Elem())
	}
	return sanitize(t.String())
}

func fieldKey(structT types.Type, f string) string { return "F!" + typeName(structT) + "!" + f }

func findField(s *types.Struct, name string) *types.Var {
	for i := 0; i < s.NumFields(); i++ {
		if s.Field(i).Name() == name {
			return s.Field(i)
		}
	}
	return nil
}

// loadField reads ptr.f from the heap.
// regField registers (and returns) the memory key of a struct field heap.
func (x *Exec) regField(structT types.Type, f *types.Var) string {
	k := fieldKey(structT, f.Name())
	if _, ok := x.memSort[k]; !ok {
		x.memSort[k] = "(Array Int " + x.ctx.sortOf(f.Type()) + ")"
	}
	return k
}

func (x *Exec) regElem(elemT types.Type) string {
	es := x.ctx.sortOf(elemT)
	k := elemKeyT(elemT)
	if _, ok := x.memSort[k]; !ok {
		x.memSort[k] = "(Array Int (Array Int " + es + "))"
	}
	return k
}

func (x *Exec) regGlobal(v *types.Var) string {
	k := x.globalKey(v)
	if _, ok := x.memSort[k]; !ok {
		x.memSort[k] = x.ctx.sortOf(v.Type())
	}
	return k
}

func (x *Exec) regMap(u *types.Map) (string, string) {
	kv, kh, vs, ks := x.mapKeys(u)
	x.memSort[kv] = "(Array Int (Array " + ks + " " + vs + "))"
	x.memSort[kh] = "(Array Int (Array " + ks + " Bool))"
	return kv, kh
}

func (x *Exec) loadField(st *State, ptr Term, structT types.Type, f *types.Var) Term {
	fs := x.ctx.sortOf(f.Type())
	m := x.memTerm(st, fieldKey(structT, f.Name()), "(Array Int "+fs+")")
	// read-over-write on syntactically equal references (keeps slice headers and their views stable)
	if si, ok := x.ctx.stores[m.S]; ok && si.idx == ptr.S {
		return Term{S: si.val, Sort: fs, T: f.Type()}
	}
	return Term{S: app("select", m.S, ptr.S), Sort: fs, T: f.Type()}
}

func (x *Exec) storeField(st *State, ptr Term, structT types.Type, f *types.Var, v Term) {
	fs := x.ctx.sortOf(f.Type())
	key := fieldKey(structT, f.Name())
	m := x.memTerm(st, key, "(Array Int "+fs+")")
	v = x.define(st, f.Name(), v)
	nm := x.define(st, "h_"+f.Name(), Term{S: app("store", m.S, ptr.S, v.S), Sort: m.Sort})
	x.ctx.stores[nm.S] = storeInfo{m.S, ptr.S, v.S}
	st.mem[key] = nm
}

// Element memories are separated by the Go element type (slices of different element types cannot alias in the
// absence of unsafe); named element types keep their own memory, basic types share one per kind.
func elemKeyT(elemT types.Type) string { return "E!" + sanitize(typeName(elemT)) }

func (x *Exec) elemMemT(st *State, elemT types.Type) Term {
	return x.memTerm(st, x.regElem(elemT), "(Array Int (Array Int "+x.ctx.sortOf(elemT)+"))")
}

// viewOf returns the array term V with V[k] = s[k] under the current element memory (k relative to the
// slice, so no offset arithmetic reaches the solver). Views are memoised on (memory term, slice term);
// each is defined by a bridging axiom to the raw memory, triggered only on reads of the view.
func (x *Exec) viewOf(st *State, s Term, elemT types.Type) (Term, bool) {
	if strings.Contains(s.S, "?") {
		return Term{}, false
	}
	es := x.ctx.sortOf(elemT)
	m := x.elemMemT(st, elemT)
	s = x.define(st, "sl", s)
	key := m.S + "|" + s.S
	if v, ok := x.ctx.views[key]; ok {
		return Term{S: v, Sort: "(Array Int " + es + ")"}, true
	}
	v := x.ctx.fresh("view", "(Array Int "+es+")")
	x.regView(m.S, s.S, v)
	x.bridge(v, m, s)
	return Term{S: v, Sort: "(Array Int " + es + ")"}, true
}

func (x *Exec) regView(mem, slice, v string) {
	key := mem + "|" + slice
	if _, ok := x.ctx.views[key]; ok {
		return
	}
	x.ctx.views[key] = v
	x.ctx.viewsByMem[mem] = append(x.ctx.viewsByMem[mem], slice)
}

// transferViews relates the views under memory `from` to memory `to` after an update that leaves the backing
// arrays satisfying cond(slice) untouched: view(to, s) = view(from, s) whenever cond(s) holds. cond returns
// "true" for an unconditional transfer and "" to skip a slice.
func (x *Exec) transferViews(from, to Term, es string, cond func(slice string) string) {
	if from.S == to.S {
		return
	}
	for _, sl := range append([]string(nil), x.ctx.viewsByMem[from.S]...) {
		if _, ok := x.ctx.views[to.S+"|"+sl]; ok {
			continue
		}
		c := cond(sl)
		if c == "" || c == "false" {
			continue
		}
		old := x.ctx.views[from.S+"|"+sl]
		if c == "true" {
			x.regView(to.S, sl, old)
			continue
		}
		nv := x.ctx.fresh("view", "(Array Int "+es+")")
		x.ctx.declKeyed(nv, "(assert "+imp(c, app("=", nv, old))+")")
		x.regView(to.S, sl, nv)
		x.bridge(nv, to, Term{S: sl, Sort: "Slice"})
	}
}

func (x *Exec) bridge(v string, m Term, s Term) {
	x.ctx.declKeyed(v, fmt.Sprintf("(assert (forall ((k?v Int)) (! (= (select %s k?v) (select (select %s (s-arr %s)) (+ (s-off %s) k?v))) :pattern ((select %s k?v)))))", v, m.S, s.S, s.S, v))
}

// setView records that under memory m the view of s is the term v (a derived fact: v is built from older views).
func (x *Exec) setView(m Term, s Term, v Term) {
	key := m.S + "|" + s.S
	c := x.define(nil, "view", v)
	if _, ok := x.ctx.views[key]; ok {
		return
	}
	x.regView(m.S, s.S, c.S)
	x.bridge(c.S, m, s)
}

// loadElem reads s[i] of a slice.
func (x *Exec) loadElem(st *State, s Term, i Term, elemT types.Type) Term {
	es := x.ctx.sortOf(elemT)
	if v, ok := x.viewOf(st, s, elemT); ok {
		return Term{S: app("select", v.S, i.S), Sort: es, T: elemT}
	}
	m := x.elemMemT(st, elemT)
	return Term{S: app("select", app("select", m.S, app("s-arr", s.S)), app("+", app("s-off", s.S), i.S)), Sort: es, T: elemT}
}

func (x *Exec) storeElem(st *State, s Term, i Term, elemT types.Type, v Term) {
	es := x.ctx.sortOf(elemT)
	key := x.regElem(elemT)
	s = x.define(st, "sl", s)
	old, _ := x.viewOf(st, s, elemT)
	m := x.elemMemT(st, elemT)
	arr := app("s-arr", s.S)
	inner := app("store", app("select", m.S, arr), app("+", app("s-off", s.S), i.S), v.S)
	nm := x.define(st, "e_"+sortID(es), Term{S: app("store", m.S, arr, inner), Sort: m.Sort})
	st.mem[key] = nm
	x.setView(nm, s, Term{S: app("store", old.S, i.S, v.S), Sort: old.Sort})
	// slices over other backing arrays are unaffected
	x.transferViews(m, nm, es, func(sl string) string { return not(app("=", app("s-arr", sl), arr)) })
}

func (x *Exec) globalKey(v *types.Var) string {
	pk := ""
	if v.Pkg() != nil {
		pk = v.Pkg().Name()
	}
	return "G!" + pk + "." + v.Name()
}

func (x *Exec) loadGlobal(st *State, v *types.Var) Term {
	s := x.ctx.sortOf(v.Type())
	m := x.memTerm(st, x.globalKey(v), s)
	return Term{S: m.S, Sort: s, T: v.Type()}
}

func (x *Exec) allocRef(st *State, hint string) Term {
	r := x.define(st, hint, st.alloc)
	st.alloc = x.define(st, "alloc", Term{S: app("+", r.S, "1"), Sort: "Int"})
	return Term{S: r.S, Sort: "Int"}
}

// fieldOfValue selects a field of a struct value.
func (x *Exec) fieldOfValue(v Term, f *types.Var) Term {
	sn := x.ctx.sortOf(v.T)
	return Term{S: app(fieldSel(sn, f.Name()), v.S), Sort: x.ctx.sortOf(f.Type()), T: f.Type()}
}

// withField returns struct value v with field f replaced.
func (x *Exec) withField(v Term, s *types.Struct, f *types.Var, nv Term) Term {
	sn := x.ctx.sortOf(v.T)
	var args []string
	for i := 0; i < s.NumFields(); i++ {
		g := s.Field(i)
		if g == f {
			args = append(args, nv.S)
		} else {
			args = append(args, app(fieldSel(sn, g.Name()), v.S))
		}
	}
	return Term{S: app("mk!"+sn, args...), Sort: sn, T: v.T}
}

func (x *Exec) zeroOf(t types.Type) Term {
	s := x.ctx.sortOf(t)
	switch u := t.Underlying().(type) {
	case *types.Basic:
		switch {
		case u.Info()&types.IsBoolean != 0:
			return Term{S: "false", Sort: s, T: t}
		case u.Info()&types.IsString != 0:
			return Term{S: "str!empty", Sort: s, T: t}
		}
		return Term{S: "0", Sort: s, T: t}
	case *types.Slice:
		return Term{S: "(mk-slice 0 0 0 0)", Sort: s, T: t}
	case *types.Interface:
		return Term{S: "(mk-iface 0 0)", Sort: s, T: t}
	case *types.Struct:
		var args []string
		for i := 0; i < u.NumFields(); i++ {
			args = append(args, x.zeroOf(u.Field(i).Type()).S)
		}
		if len(args) == 0 {
			args = []string{"0"}
		}
		return Term{S: app("mk!"+s, args...), Sort: s, T: t}
	case *types.Array:
		return Term{S: fmt.Sprintf("((as const %s) %s)", s, x.zeroOf(u.Elem()).S), Sort: s, T: t}
	}
	return Term{S: "0", Sort: s, T: t}
}

// convert adapts v to Go type `to` (implicit or explicit conversion), boxing into interfaces.
func (x *Exec) convert(st *State, v Term, to types.Type) Term {
	if to == nil {
		return v
	}
	if v.S == "nil!" {
		z := x.zeroOf(to)
		return z
	}
	toS := x.ctx.sortOf(to)
	if _, isI := to.Underlying().(*types.Interface); isI {
		if v.Sort == "Iface" {
			v.T = to
			return v
		}
		if v.T == nil {
			x.unsupported(nil, "boxing value of unknown type")
		}
		tag := x.ctx.typeTag(v.T)
		return Term{S: app("mk-iface", fmt.Sprint(tag), x.boxPayload(v)), Sort: "Iface", T: to}
	}
	if v.Sort != toS {
		x.unsupported(nil, "conversion %s (%s) -> %s (%s)", v.T, v.Sort, to, toS)
	}
	v.T = to
	return v
}

func (x *Exec) boxPayload(v Term) string {
	switch v.Sort {
	case "Int":
		return v.S
	case "Bool":
		return app("ite", v.S, "1", "0")
	}
	id := sortID(v.Sort)
	x.ctx.declOnce("box!"+id, fmt.Sprintf("(declare-fun box!%s (%s) Int)\n(declare-fun unbox!%s (Int) %s)\n(assert (forall ((v %s)) (! (= (unbox!%s (box!%s v)) v) :pattern ((box!%s v)))))", id, v.Sort, id, v.Sort, v.Sort, id, id, id))
	return app("box!"+id, v.S)
}

func (x *Exec) unboxPayload(payload string, t types.Type) Term {
	s := x.ctx.sortOf(t)
	switch s {
	case "Int":
		return Term{S: payload, Sort: s, T: t}
	case "Bool":
		return Term{S: app("=", payload, "1"), Sort: s, T: t}
	}
	id := sortID(s)
	x.ctx.declOnce("box!"+id, fmt.Sprintf("(declare-fun box!%s (%s) Int)\n(declare-fun unbox!%s (Int) %s)\n(assert (forall ((v %s)) (! (= (unbox!%s (box!%s v)) v) :pattern ((box!%s v)))))", id, s, id, s, s, id, id, id))
	return Term{S: app("unbox!"+id, payload), Sort: s, T: t}
}
