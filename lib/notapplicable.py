"""Reasons for properties that are not (yet) claimed, and the hook commits in /repo."""
REASONS = {}
HOOK_COMMITS = ["12b960b", "8c6d515", "540c0ff", "a6172d0", "e727bd6", "b4a2cc6", "23d6401", "550b74c", "98d0a03", "2a183a5", "4f2661b", "207a371", "a31e2d6", "3d80786", "bf1cb05", "c70bd00", "07b0435", "f81f273", "eef3ff5", "af3ecf7", "80c5075", "b339b1a", "ee3bae8", "a5e97b2", "10ec9f5", "a8c2e99", "dc83fb1"]
