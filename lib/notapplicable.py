"""Reasons for properties that are not (yet) claimed, and the hook commits in /repo."""
REASONS = {}
HOOK_COMMITS = ["12b960b"]
