"""Per-property configuration of the checks (what is verified, with which contracts, which bounded stand-ins)."""

COMMON_TRUSTED = [
    "Go compiler, run-time and go/types (the typed AST the VC generator walks)",
    "govc, the VC generator written for this task (mitigated by the must-fail corpus under selftest/ and seeded/)",
    "SMT solvers z3 4.8.12, z3 5.1.0, cvc5 1.0 (three are raced; sat/unsat disagreement is an engine error)",
    "int/int64/uint64 treated as mathematical integers (no overflow of lengths, offsets, counters); sized integers <= 32 bit carry range obligations",
    "append/copy/make/slicing modelled from the Go specification (in-place vs reallocating append both covered)",
]

ITEMS_CONTRACTS = "{repo}/internal/lexer/items/zz_contracts_verif.go"

PROPS = {}

PROPS["C18"] = {
    "level": "proof",
    "govc": [{"dir": "{repo}", "pkgs": ["./internal/lexer/items"], "contracts": [ITEMS_CONTRACTS], "prop": "C18"}],
    "bounded": [{
        "name": "IVL", "stands_in_for": ["items.(*DisjunctRangeSet).AddRange", "items.(*DisjunctRangeSet).insertRange"],
        "overlay": {"{repo}/internal/lexer/items/verif_c18_test.go": "harness/c18/verif_c18_test.go"},
        "pkg": "./internal/lexer/items", "run": "TestVerifC18",
        "env": {"VERIF_C18": {"quick": "enum:3:6", "thorough": "enum:4:9"}}, "replay_env": "VERIF_C18",
    }],
    "trusted_base": COMMON_TRUSTED,
    "assumptions": [
        "rune bounds of added ranges lie in [0, 0x10FFFF] (precondition of AddRange; delivered by LitToRune, see C20)",
        "the IVL enumeration is a cross-check of the contract against the real code and the search space for failing inputs; it is not counted as proof",
    ],
    "explanation": "Deductive: full functional contract of AddRange/insertRange (sorted, disjoint, non-empty, exact union, refinement of old classes and of the added range, frame) discharged for all inputs and all iterations by SMT. The bounded IVL run evaluates the same contract on the real code for all interval sequences of the stated scope.",
}


def prepare_expand(run):
    import expand
    run.carriers = expand.expand(run)


STDLIB = "{verif}/contracts/stdlib.go"
UTIL_CONTRACTS = "{repo}/internal/util/zz_contracts_verif.go"
UTILGEN_CONTRACTS = "{repo}/internal/util/gen/golang/zz_contracts_verif.go"
MD_CONTRACTS = "{repo}/internal/util/md/zz_contracts_verif.go"


def extra_parametric_util(run):
    import expand
    diffs = expand.parametricity(run.carriers, "util/litconv.go")
    v = [{"id": "parametricity:util/litconv.go", "what": "generated util functions differ between carriers: %s" % diffs, "input": None}] if diffs else []
    return {"name": "parametricity(util/litconv.go)", "cases": len(run.carriers), "violations": v,
            "note": "the expanded run-time functions are textually identical across all carrier grammars and flag sets"}


PROPS["C20"] = {
    "level": "proof",
    "prepare": prepare_expand,
    "govc": [
        {"dir": "{repo}", "pkgs": ["./internal/util"], "contracts": [STDLIB, UTIL_CONTRACTS], "prop": "C20"},
        {"dir": "{gen}/recover", "pkgs": ["./util"], "contracts": [STDLIB, UTILGEN_CONTRACTS], "prop": "C20"},
    ],
    "extra": [extra_parametric_util],
    "trusted_base": COMMON_TRUSTED + ["text/template expansion of the util template (the expanded package is what is verified)"],
    "assumptions": [
        "utf8.DecodeRune, strconv.ParseInt, strconv.ParseUint: trusted contracts (contracts/stdlib.go); the plain-character case of a rune literal is by definition the rune utf8.DecodeRune returns",
        "the value of an escaped rune literal is transcribed from the Go specification (spec functions escapeVal etc. in the contract file)",
        "that gocc hands LitToRune exactly the bytes of the char_lit token is the front-end scanner's contract (C13/C14)",
    ],
    "explanation": "Both copies of the decoder (internal/util/litconv.go and the expansion of the util template) are proved to return Go's value for every valid rune literal, with no panic; IntValue/UintValue are proved to be exactly the strconv call on string(lit).",
}

PROPS["C19"] = {
    "level": "proof",
    "govc": [{"dir": "{repo}", "pkgs": ["./internal/util/md"], "contracts": [STDLIB, MD_CONTRACTS], "prop": "C19"}],
    "trusted_base": COMMON_TRUSTED,
    "assumptions": [
        "ghost axioms of loadMd (Code(0)=false, Code(i+1) = Code(i) xor Fence(i)) are a recursive definition, hence conservative",
        "precondition [bare]: fence starts do not overlap or touch (the property quantifies over bare ``` fences with no ``` inside prose or code)",
        "that blanked text and the concatenated blocks generate the same packages is layout-invariance (C13), not re-proved here",
    ],
    "explanation": "loadMd is proved, for all rune sequences with bare fences, to keep the length, blank fences and prose (keeping newlines) and keep code runes at identical indices; hence line and rune column of code text are those of the markdown file.",
}
