"""Per-property configuration of the checks (what is verified, with which contracts, which bounded stand-ins)."""

COMMON_TRUSTED = [
    "Go compiler, run-time and go/types (the typed AST the VC generator walks)",
    "govc, the VC generator written for this task (mitigated by the must-fail corpus under selftest/ and seeded/)",
    "SMT solvers z3 4.8.12, z3 5.1.0, cvc5 1.0 (three are raced; sat/unsat disagreement is an engine error)",
    "int/int64/uint64 treated as mathematical integers (no overflow of lengths, offsets, counters); sized integers <= 32 bit carry range obligations",
    "append/copy/make/slicing modelled from the Go specification (in-place vs reallocating append both covered)",
]

ITEMS_CONTRACTS = "{repo}/internal/lexer/items/zz_contracts_verif.go"

PROPS = {}

PROPS["C18"] = {
    "level": "proof",
    "govc": [{"dir": "{repo}", "pkgs": ["./internal/lexer/items"], "contracts": [ITEMS_CONTRACTS], "prop": "C18"}],
    "bounded": [{
        "name": "IVL", "stands_in_for": ["items.(*DisjunctRangeSet).AddRange", "items.(*DisjunctRangeSet).insertRange"],
        "overlay": {"{repo}/internal/lexer/items/verif_c18_test.go": "harness/c18/verif_c18_test.go"},
        "pkg": "./internal/lexer/items", "run": "TestVerifC18",
        "env": {"VERIF_C18": {"quick": "enum:3:6", "thorough": "enum:4:9"}}, "replay_env": "VERIF_C18",
    }],
    "trusted_base": COMMON_TRUSTED,
    "assumptions": [
        "rune bounds of added ranges lie in [0, 0x10FFFF] (precondition of AddRange; delivered by LitToRune, see C20)",
        "the IVL enumeration is a cross-check of the contract against the real code and the search space for failing inputs; it is not counted as proof",
    ],
    "explanation": "Deductive: full functional contract of AddRange/insertRange (sorted, disjoint, non-empty, exact union, refinement of old classes and of the added range, frame) discharged for all inputs and all iterations by SMT. The bounded IVL run evaluates the same contract on the real code for all interval sequences of the stated scope.",
}


def prepare_expand(run):
    import expand
    run.carriers = expand.expand(run)


STDLIB = "{verif}/contracts/stdlib.go"
UTIL_CONTRACTS = "{repo}/internal/util/zz_contracts_verif.go"
UTILGEN_CONTRACTS = "{repo}/internal/util/gen/golang/zz_contracts_verif.go"
MD_CONTRACTS = "{repo}/internal/util/md/zz_contracts_verif.go"


def extra_parametric_util(run):
    import expand
    diffs = expand.parametricity(run.carriers, "util/litconv.go")
    v = [{"id": "parametricity:util/litconv.go", "what": "generated util functions differ between carriers: %s" % diffs, "input": None}] if diffs else []
    return {"name": "parametricity(util/litconv.go)", "cases": len(run.carriers), "violations": v,
            "note": "the expanded run-time functions are textually identical across all carrier grammars and flag sets"}


PROPS["C20"] = {
    "level": "proof",
    "prepare": prepare_expand,
    "govc": [
        {"dir": "{repo}", "pkgs": ["./internal/util"], "contracts": [STDLIB, UTIL_CONTRACTS], "prop": "C20"},
        {"dir": "{gen}/recover", "pkgs": ["./util"], "contracts": [STDLIB, UTILGEN_CONTRACTS], "prop": "C20"},
    ],
    "extra": [extra_parametric_util],
    "trusted_base": COMMON_TRUSTED + ["text/template expansion of the util template (the expanded package is what is verified)"],
    "assumptions": [
        "utf8.DecodeRune, strconv.ParseInt, strconv.ParseUint: trusted contracts (contracts/stdlib.go); the plain-character case of a rune literal is by definition the rune utf8.DecodeRune returns",
        "the value of an escaped rune literal is transcribed from the Go specification (spec functions escapeVal etc. in the contract file)",
        "that gocc hands LitToRune exactly the bytes of the char_lit token is the front-end scanner's contract (C13/C14)",
    ],
    "explanation": "Both copies of the decoder (internal/util/litconv.go and the expansion of the util template) are proved to return Go's value for every valid rune literal, with no panic; IntValue/UintValue are proved to be exactly the strconv call on string(lit).",
}

PROPS["C19"] = {
    "level": "proof",
    "govc": [{"dir": "{repo}", "pkgs": ["./internal/util/md"], "contracts": [STDLIB, MD_CONTRACTS], "prop": "C19"}],
    "trusted_base": COMMON_TRUSTED,
    "assumptions": [
        "ghost axioms of loadMd (Code(0)=false, Code(i+1) = Code(i) xor Fence(i)) are a recursive definition, hence conservative",
        "precondition [bare]: fence starts do not overlap or touch (the property quantifies over bare ``` fences with no ``` inside prose or code)",
        "that blanked text and the concatenated blocks generate the same packages is layout-invariance (C13), not re-proved here",
    ],
    "explanation": "loadMd is proved, for all rune sequences with bare fences, to keep the length, blank fences and prose (keeping newlines) and keep code runes at identical indices; hence line and rune column of code text are those of the markdown file.",
}


LEXGEN_CONTRACTS = "{repo}/internal/lexer/gen/golang/zz_contracts_verif.go"
SCAN_ALPHA = " a1\n\t\r?\"/-".encode().hex() + "c3a9"


def scan_bounded(prop, carriers=("lexonly", "recover")):
    out = []
    for c in carriers:
        out.append({
            "name": "SCAN-%s-%s" % (prop, c), "stands_in_for": ["lexer.(*Lexer).Scan", "lexer.(*Lexer).Reset", "lexer.NewLexer"],
            "gen_dir": "{gen}/" + c, "copy": {"harness/scan/verif_scan_test.go": "lexer/verif_scan_test.go"},
            "pkg": "./lexer", "run": "TestVerifScan",
            "env": {"VERIF_SCAN": {"quick": "enum:4:" + SCAN_ALPHA, "thorough": "enum:6:" + SCAN_ALPHA}, "VERIF_SCAN_PROP": prop.lower()},
            "replay_env": "VERIF_SCAN",
        })
    return out


def extra_parametric_lexer(run):
    import expand
    plain = {k: v for k, v in run.carriers.items() if not k.endswith("_dbg")}
    diffs = expand.parametricity(plain, "lexer/lexer.go")
    v = [{"id": "parametricity:lexer/lexer.go", "what": "generated lexer functions differ between carriers: %s" % diffs, "input": None}] if diffs else []
    return {"name": "parametricity(lexer/lexer.go)", "cases": len(plain), "violations": v,
            "note": "Scan/Reset/NewLexer are textually identical across carrier grammars and flag sets (they differ only in NumStates/NumSymbols and the tables)"}


SCAN_ASSUME = [
    "WF_lex: the emitted ActTab has an ignore name exactly for the states whose Accept is -1, and every transition function returns -1 or a state number (what getActTab/transTabSrc emit; checked on emitted tables by the C01 bounded sweep)",
    "utf8.DecodeRune: trusted contract (contracts/stdlib.go)",
    "ghost axioms of Scan (Bnd/Line/Col recurrences along the chain of rune boundaries) are recursive definitions, hence conservative",
    "the contract is proved on the expansion of two carrier grammars (concrete NumStates), and the run-time functions are checked to be textually identical across all carriers",
]

PROPS["C08"] = {
    "level": "proof",
    "prepare": prepare_expand,
    "govc": [{"dir": "{gen}/" + c, "pkgs": ["./lexer"], "contracts": [STDLIB, LEXGEN_CONTRACTS], "prop": "C08"} for c in ("lexonly", "recover")],
    "bounded": scan_bounded("C08"),
    "extra": [extra_parametric_lexer],
    "trusted_base": COMMON_TRUSTED + ["text/template expansion (the expanded lexer package is what is verified)"],
    "assumptions": SCAN_ASSUME,
    "explanation": "Scan is proved, for arbitrary tables satisfying WF_lex and arbitrary byte strings, to keep the cursor invariant (line/column equal the position recurrence at the cursor offset), to report the start offset/line/column of the lexeme, to return as literal exactly the bytes between start and the new cursor, to make progress and to return EOF for ever once exhausted; consecutive calls therefore tile the input. The bounded run compares the real lexer of the carriers with an independent oracle on all short inputs.",
}

PROPS["C16"] = {
    "level": "proof",
    "prepare": prepare_expand,
    "govc": [{"dir": "{gen}/" + c, "pkgs": ["./lexer"], "contracts": [STDLIB, LEXGEN_CONTRACTS], "prop": "C16"} for c in ("lexonly", "recover")],
    "bounded": scan_bounded("C16"),
    "extra": [extra_parametric_lexer],
    "trusted_base": COMMON_TRUSTED + ["text/template expansion (the expanded packages are what is verified)"],
    "assumptions": SCAN_ASSUME,
    "explanation": "Lexer.Reset is proved to re-establish exactly the state NewLexer creates (pos, line, column); with the deterministic Scan contract the token sequences coincide.",
}


TOKGEN_CONTRACTS = "{repo}/internal/token/gen/golang/zz_contracts_verif.go"
PARGEN_CONTRACTS = "{repo}/internal/parser/gen/golang/zz_contracts_verif.go"
PARSER_CARRIERS = ("recover", "conflict")


def parse_govc(prop):
    return [{"dir": "{gen}/" + c, "pkgs": ["./parser", "./token"], "contracts": [STDLIB, TOKGEN_CONTRACTS, PARGEN_CONTRACTS], "prop": prop} for c in PARSER_CARRIERS]


def parse_bounded(prop, depth_q=4, depth_t=6):
    out = []
    for c in PARSER_CARRIERS:
        out.append({
            "name": "PARSE-%s-%s" % (prop, c), "stands_in_for": ["parser.(*Parser).Parse", "parser.(*Parser).Error", "parser.(*Parser).newError", "parser.(*stack).popN", "parser.(*stack).push",
                                                                 "parser.(*Parser).firstRecoveryState", "parser.(*Parser).popNonRecoveryStates", "parser.(*Parser).Reset", "parser.NewParser"],
            "gen_dir": "{gen}/" + c, "copy": {"harness/parse/verif_parse_test.go": "parser/verif_parse_test.go"},
            "pkg": "./parser", "run": "TestVerifParse",
            "env": {"VERIF_PARSE": {"quick": "enum:%d" % depth_q, "thorough": "enum:%d" % depth_t}, "VERIF_PARSE_PROP": prop.lower()},
            "replay_env": "VERIF_PARSE",
        })
    return out


def extra_parametric_parser(run):
    import expand
    plain = {k: v for k, v in run.carriers.items() if k in ("recover", "conflict", "recover_zip", "conflict_zip")}
    diffs = expand.parametricity(plain, "parser/parser.go")
    v = [{"id": "parametricity:parser/parser.go", "what": "generated parser functions differ between carriers: %s" % diffs, "input": None}] if diffs else []
    return {"name": "parametricity(parser/parser.go)", "cases": len(plain), "violations": v,
            "note": "the run-time functions of parser.go are textually identical across carrier grammars and across plain/-zip"}


PARSE_ASSUME = [
    "WF_parse: every table entry is in range (checked on emitted tables by the SYN sweep of the LR validator)",
    "viable-stack interface (axiom schemata VInit, VStates, VShift, VReduce, VAccept, VPrefix, VExt instantiated on ground stack views): a reduce always finds its handle and a goto entry - a property of the automaton, discharged per table set by the LR(1) validator plus the trusted LR theorem, not proved by govc",
    "WFrecover: the canRecover flag of a state holds exactly when the state can shift the error symbol (generator contract on Item.canRecover/ItemSet.CanRecover; checked on emitted tables by the LR validator)",
    "trusted contracts: Scanner.Scan returns non-nil tokens with a type in [0,numSymbols), EOF for ever from some point on; user ReduceFuncs do not write parser memory or retain X; action.String is pure",
    "termination of the Parse loop is not proved (a reduce step consumes no input): it follows from the trusted LR theorem for validated tables",
    "the contract is proved on the expansion of two carrier grammars (concrete table sizes), and the run-time functions are checked to be textually identical across all carriers",
]
PARSE_TRUSTED = COMMON_TRUSTED + ["text/template expansion (the expanded parser package is what is verified)", "LR theorem (Aho-Sethi-Ullman 4.7): a conflict-free canonical LR(1) automaton accepts exactly L(G), reduces in reverse right-most order, and its reachable stacks satisfy the viable-stack interface"]

for _p, _txt in {
    "C02": "Run-time half: Parse is proved, for arbitrary tables satisfying WF_parse and the viable-stack interface and arbitrary token streams, to execute exactly one step of the LR machine M(T) per loop iteration (shift/reduce/accept as the table entry says, goto lookup, stack discipline) and never to panic. That M(T) accepts exactly L(G) is the trusted LR theorem applied to tables validated by the bounded SYN sweep (generator half, labelled bounded).",
    "C03": "Run-time half: each reduce step calls the production's ReduceFunc exactly once (ghost call trace) with X = the top NumSymbols attributes in order (same backing array, so the same objects) and C = p.Context; a shift pushes the very token object the scanner returned; an action error ends Parse at once with an error carrying it; accept returns the attribute of the top symbol. Post-order evaluation follows from the trusted LR theorem. The rewriting of action text (SDTVal) and the default actions are checked by the generator-side contracts and bounded checks.",
    "C06": "Run-time half: on a syntax error with no recovery state Parse returns an error carrying the very token that had no action, the number of the state on top, and as expected list exactly the names of the non-nil entries of that state's row in column order (proved with the counting function CntRow); nothing further is scanned. Exactness of the row (canonical look-aheads) is the generator half, decided by the bounded SYN sweep.",
    "C07": "Error, popNonRecoveryStates, firstRecoveryState and Parse's recovery path are proved against the recovery rule of the property: discard above the topmost state that can shift the error symbol, push the error attribute (offending token, discarded attributes in stack order) on the state reached by shifting the error symbol, skip input starting with the offending token up to the first acceptable token but not past EOF, return the error otherwise; no panic (type assertion, indices); the skip loop terminates; tokens are consumed in input order (ghost scan counter).",
}.items():
    PROPS[_p] = {
        "level": "other" if _p in ("C02", "C03", "C06") else "proof",
        "prepare": prepare_expand,
        "govc": parse_govc(_p),
        "bounded": parse_bounded(_p),
        "extra": [extra_parametric_parser],
        "trusted_base": PARSE_TRUSTED,
        "assumptions": PARSE_ASSUME,
        "explanation": _txt,
    }

PROPS["C16"]["govc"] += parse_govc("C16")
PROPS["C16"]["bounded"] += parse_bounded("C16", 4, 5)
PROPS["C16"]["extra"].append(extra_parametric_parser)
PROPS["C16"]["assumptions"] = SCAN_ASSUME + PARSE_ASSUME
PROPS["C16"]["trusted_base"] = PARSE_TRUSTED
PROPS["C16"]["explanation"] += " Parser: Parse is proved with no assumption on what earlier calls left in the parser object (only p.stack != nil): Reset yields the one-element stack, nextToken is assigned before it is read, so the step contract makes result, error, expected list and action calls a function of tables, token stream and Context alone."
