"""Per-property configuration of the checks (what is verified, with which contracts, which bounded stand-ins)."""

COMMON_TRUSTED = [
    "Go compiler, run-time and go/types (the typed AST the VC generator walks)",
    "govc, the VC generator written for this task (mitigated by the must-fail corpus under selftest/ and seeded/)",
    "SMT solvers z3 4.8.12, z3 5.1.0, cvc5 1.0 (three are raced; sat/unsat disagreement is an engine error)",
    "int/int64/uint64 treated as mathematical integers (no overflow of lengths, offsets, counters); sized integers <= 32 bit carry range obligations",
    "append/copy/make/slicing modelled from the Go specification (in-place vs reallocating append both covered)",
]

ITEMS_CONTRACTS = "{repo}/internal/lexer/items/zz_contracts_verif.go"

PROPS = {}

PROPS["C18"] = {
    "level": "proof",
    "govc": [{"dir": "{repo}", "pkgs": ["./internal/lexer/items"], "contracts": [ITEMS_CONTRACTS], "prop": "C18"}],
    "bounded": [{
        "name": "IVL", "stands_in_for": ["items.(*DisjunctRangeSet).AddRange", "items.(*DisjunctRangeSet).insertRange"],
        "overlay": {"{repo}/internal/lexer/items/verif_c18_test.go": "harness/c18/verif_c18_test.go"},
        "pkg": "./internal/lexer/items", "run": "TestVerifC18",
        "env": {"VERIF_C18": {"quick": "enum:3:6", "thorough": "enum:4:9"}}, "replay_env": "VERIF_C18",
    }],
    "trusted_base": COMMON_TRUSTED,
    "assumptions": [
        "rune bounds of added ranges lie in [0, 0x10FFFF] (precondition of AddRange; delivered by LitToRune, see C20)",
        "the IVL enumeration is a cross-check of the contract against the real code and the search space for failing inputs; it is not counted as proof",
    ],
    "explanation": "Deductive: full functional contract of AddRange/insertRange (sorted, disjoint, non-empty, exact union, refinement of old classes and of the added range, frame) discharged for all inputs and all iterations by SMT. The bounded IVL run evaluates the same contract on the real code for all interval sequences of the stated scope.",
}
