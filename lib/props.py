"""Per-property configuration of the checks (what is verified, with which contracts, which bounded stand-ins)."""

COMMON_TRUSTED = [
    "Go compiler, run-time and go/types (the typed AST the VC generator walks)",
    "govc, the VC generator written for this task (mitigated by the must-fail corpus under selftest/ and seeded/)",
    "SMT solvers z3 4.8.12, z3 5.1.0, cvc5 1.0 (three are raced; sat/unsat disagreement is an engine error)",
    "int/int64/uint64 treated as mathematical integers (no overflow of lengths, offsets, counters); sized integers <= 32 bit carry range obligations",
    "append/copy/make/slicing modelled from the Go specification (in-place vs reallocating append both covered)",
]

ITEMS_CONTRACTS = "{repo}/internal/lexer/items/zz_contracts_verif.go"
AST_CONTRACTS = "{repo}/internal/ast/zz_contracts_verif.go"

PROPS = {}

PROPS["C18"] = {
    "level": "proof",
    "govc": [{"dir": "{repo}", "pkgs": ["./internal/lexer/items"], "contracts": [ITEMS_CONTRACTS, AST_CONTRACTS], "prop": "C18"}],
    "bounded": [{
        "name": "IVL", "stands_in_for": ["items.(*DisjunctRangeSet).AddRange", "items.(*DisjunctRangeSet).insertRange"],
        "overlay": {"{repo}/internal/lexer/items/verif_c18_test.go": "harness/c18/verif_c18_test.go"},
        "pkg": "./internal/lexer/items", "run": "TestVerifC18",
        "env": {"VERIF_C18": {"quick": "enum:3:6", "thorough": "enum:4:9"}}, "replay_env": "VERIF_C18",
    }],
    "trusted_base": COMMON_TRUSTED,
    "assumptions": [
        "rune bounds of added ranges lie in [0, 0x10FFFF] (precondition of AddRange; delivered by LitToRune, see C20)",
        "the IVL enumeration is a cross-check of the contract against the real code and the search space for failing inputs; it is not counted as proof",
    ],
    "explanation": "Deductive: full functional contract of AddRange/insertRange (sorted, disjoint, non-empty, exact union, refinement of old classes and of the added range, frame) discharged for all inputs and all iterations by SMT. The bounded IVL run evaluates the same contract on the real code for all interval sequences of the stated scope.",
}


def prepare_expand(run):
    import expand
    run.carriers = expand.expand(run)


STDLIB = "{verif}/contracts/stdlib.go"
UTIL_CONTRACTS = "{repo}/internal/util/zz_contracts_verif.go"
UTILGEN_CONTRACTS = "{repo}/internal/util/gen/golang/zz_contracts_verif.go"
MD_CONTRACTS = "{repo}/internal/util/md/zz_contracts_verif.go"


def extra_parametric_util(run):
    import expand
    diffs = expand.parametricity(run.carriers, "util/litconv.go")
    v = [{"id": "parametricity:util/litconv.go", "what": "generated util functions differ between carriers: %s" % diffs, "input": None}] if diffs else []
    return {"name": "parametricity(util/litconv.go)", "cases": len(run.carriers), "violations": v,
            "note": "the expanded run-time functions are textually identical across all carrier grammars and flag sets"}


PROPS["C20"] = {
    "level": "proof",
    "prepare": prepare_expand,
    "govc": [
        {"dir": "{repo}", "pkgs": ["./internal/util"], "contracts": [STDLIB, UTIL_CONTRACTS], "prop": "C20"},
        {"dir": "{gen}/recover", "pkgs": ["./util"], "contracts": [STDLIB, UTILGEN_CONTRACTS], "prop": "C20"},
    ],
    "extra": [extra_parametric_util],
    "trusted_base": COMMON_TRUSTED + ["text/template expansion of the util template (the expanded package is what is verified)"],
    "assumptions": [
        "utf8.DecodeRune, strconv.ParseInt, strconv.ParseUint: trusted contracts (contracts/stdlib.go); the plain-character case of a rune literal is by definition the rune utf8.DecodeRune returns",
        "the value of an escaped rune literal is transcribed from the Go specification (spec functions escapeVal etc. in the contract file)",
        "that gocc hands LitToRune exactly the bytes of the char_lit token is the front-end scanner's contract (C13/C14)",
    ],
    "explanation": "Both copies of the decoder (internal/util/litconv.go and the expansion of the util template) are proved to return Go's value for every valid rune literal, with no panic; IntValue/UintValue are proved to be exactly the strconv call on string(lit).",
}

PROPS["C19"] = {
    "level": "proof",
    "govc": [{"dir": "{repo}", "pkgs": ["./internal/util/md"], "contracts": [STDLIB, MD_CONTRACTS], "prop": "C19"}],
    "trusted_base": COMMON_TRUSTED,
    "assumptions": [
        "ghost axioms of loadMd (Code(0)=false, Code(i+1) = Code(i) xor Fence(i)) are a recursive definition, hence conservative",
        "precondition [bare]: fence starts do not overlap or touch (the property quantifies over bare ``` fences with no ``` inside prose or code)",
        "that blanked text and the concatenated blocks generate the same packages is layout-invariance (C13), not re-proved here",
    ],
    "explanation": "loadMd is proved, for all rune sequences with bare fences, to keep the length, blank fences and prose (keeping newlines) and keep code runes at identical indices; hence line and rune column of code text are those of the markdown file.",
}


LEXGEN_CONTRACTS = "{repo}/internal/lexer/gen/golang/zz_contracts_verif.go"
SCAN_ALPHA = " a1\n\t\r?\"/-".encode().hex() + "c3a9"


def scan_bounded(prop, carriers=("lexonly", "recover")):
    out = []
    for c in carriers:
        out.append({
            "name": "SCAN-%s-%s" % (prop, c), "stands_in_for": ["lexer.(*Lexer).Scan", "lexer.(*Lexer).Reset", "lexer.NewLexer"],
            "gen_dir": "{gen}/" + c, "copy": {"harness/scan/verif_scan_test.go": "lexer/verif_scan_test.go"},
            "pkg": "./lexer", "run": "TestVerifScan",
            "env": {"VERIF_SCAN": {"quick": "enum:4:" + SCAN_ALPHA, "thorough": "enum:6:" + SCAN_ALPHA}, "VERIF_SCAN_PROP": prop.lower()},
            "replay_env": "VERIF_SCAN",
        })
    return out


def extra_parametric_lexer(run):
    import expand
    plain = {k: v for k, v in run.carriers.items() if not k.endswith("_dbg")}
    diffs = expand.parametricity(plain, "lexer/lexer.go")
    v = [{"id": "parametricity:lexer/lexer.go", "what": "generated lexer functions differ between carriers: %s" % diffs, "input": None}] if diffs else []
    return {"name": "parametricity(lexer/lexer.go)", "cases": len(plain), "violations": v,
            "note": "Scan/Reset/NewLexer are textually identical across carrier grammars and flag sets (they differ only in NumStates/NumSymbols and the tables)"}


SCAN_ASSUME = [
    "WF_lex: the emitted ActTab has an ignore name exactly for the states whose Accept is -1, and every transition function returns -1 or a state number (what getActTab/transTabSrc emit; checked on emitted tables by the C01 bounded sweep)",
    "utf8.DecodeRune: trusted contract (contracts/stdlib.go)",
    "ghost axioms of Scan (Bnd/Line/Col recurrences along the chain of rune boundaries) are recursive definitions, hence conservative",
    "the contract is proved on the expansion of two carrier grammars (concrete NumStates), and the run-time functions are checked to be textually identical across all carriers",
]

PROPS["C08"] = {
    "level": "proof",
    "prepare": prepare_expand,
    "govc": [{"dir": "{gen}/" + c, "pkgs": ["./lexer"], "contracts": [STDLIB, LEXGEN_CONTRACTS], "prop": "C08"} for c in ("lexonly", "recover")],
    "bounded": scan_bounded("C08"),
    "extra": [extra_parametric_lexer],
    "trusted_base": COMMON_TRUSTED + ["text/template expansion (the expanded lexer package is what is verified)"],
    "assumptions": SCAN_ASSUME,
    "explanation": "Scan is proved, for arbitrary tables satisfying WF_lex and arbitrary byte strings, to keep the cursor invariant (line/column equal the position recurrence at the cursor offset), to report the start offset/line/column of the lexeme, to return as literal exactly the bytes between start and the new cursor, to make progress and to return EOF for ever once exhausted; consecutive calls therefore tile the input. The bounded run compares the real lexer of the carriers with an independent oracle on all short inputs.",
}

PROPS["C16"] = {
    "level": "proof",
    "prepare": prepare_expand,
    "govc": [{"dir": "{gen}/" + c, "pkgs": ["./lexer"], "contracts": [STDLIB, LEXGEN_CONTRACTS], "prop": "C16"} for c in ("lexonly", "recover")],
    "bounded": scan_bounded("C16"),
    "extra": [extra_parametric_lexer],
    "trusted_base": COMMON_TRUSTED + ["text/template expansion (the expanded packages are what is verified)"],
    "assumptions": SCAN_ASSUME,
    "explanation": "Lexer.Reset is proved to re-establish exactly the state NewLexer creates (pos, line, column); with the deterministic Scan contract the token sequences coincide.",
}


TOKGEN_CONTRACTS = "{repo}/internal/token/gen/golang/zz_contracts_verif.go"
PARGEN_CONTRACTS = "{repo}/internal/parser/gen/golang/zz_contracts_verif.go"
PARSER_CARRIERS = ("recover", "conflict")


def parse_govc(prop):
    return [{"dir": "{gen}/" + c, "pkgs": ["./parser", "./token"], "contracts": [STDLIB, TOKGEN_CONTRACTS, PARGEN_CONTRACTS], "prop": prop} for c in PARSER_CARRIERS]


def parse_bounded(prop, depth_q=4, depth_t=6):
    out = []
    for c in PARSER_CARRIERS:
        out.append({
            "name": "PARSE-%s-%s" % (prop, c), "stands_in_for": ["parser.(*Parser).Parse", "parser.(*Parser).Error", "parser.(*Parser).newError", "parser.(*stack).popN", "parser.(*stack).push",
                                                                 "parser.(*Parser).firstRecoveryState", "parser.(*Parser).popNonRecoveryStates", "parser.(*Parser).Reset", "parser.NewParser"],
            "gen_dir": "{gen}/" + c, "copy": {"harness/parse/verif_parse_test.go": "parser/verif_parse_test.go"},
            "pkg": "./parser", "run": "TestVerifParse",
            "env": {"VERIF_PARSE": {"quick": "enum:%d" % depth_q, "thorough": "enum:%d" % depth_t}, "VERIF_PARSE_PROP": prop.lower()},
            "replay_env": "VERIF_PARSE",
        })
    return out


def extra_parametric_parser(run):
    import expand
    plain = {k: v for k, v in run.carriers.items() if k in ("recover", "conflict", "recover_zip", "conflict_zip")}
    diffs = expand.parametricity(plain, "parser/parser.go")
    v = [{"id": "parametricity:parser/parser.go", "what": "generated parser functions differ between carriers: %s" % diffs, "input": None}] if diffs else []
    return {"name": "parametricity(parser/parser.go)", "cases": len(plain), "violations": v,
            "note": "the run-time functions of parser.go are textually identical across carrier grammars and across plain/-zip"}


PARSE_ASSUME = [
    "WF_parse: every table entry is in range (checked on emitted tables by the SYN sweep of the LR validator)",
    "viable-stack interface (axiom schemata VInit, VStates, VShift, VReduce, VAccept, VPrefix, VExt instantiated on ground stack views): a reduce always finds its handle and a goto entry - a property of the automaton, discharged per table set by the LR(1) validator plus the trusted LR theorem, not proved by govc",
    "WFrecover: the canRecover flag of a state holds exactly when the state can shift the error symbol (generator contract on Item.canRecover/ItemSet.CanRecover; checked on emitted tables by the LR validator)",
    "trusted contracts: Scanner.Scan returns non-nil tokens with a type in [0,numSymbols), EOF for ever from some point on; user ReduceFuncs do not write parser memory or retain X; action.String is pure",
    "termination of the Parse loop is not proved (a reduce step consumes no input): it follows from the trusted LR theorem for validated tables",
    "the contract is proved on the expansion of two carrier grammars with the table sizes replaced by symbolic constants (NumStates, NumSymbols, numProductions >= 1), and the run-time functions are checked to be textually identical across all carriers",
]
PARSE_TRUSTED = COMMON_TRUSTED + ["text/template expansion (the expanded parser package is what is verified)", "LR theorem (Aho-Sethi-Ullman 4.7): a conflict-free canonical LR(1) automaton accepts exactly L(G), reduces in reverse right-most order, and its reachable stacks satisfy the viable-stack interface"]

for _p, _txt in {
    "C02": "Run-time half: Parse is proved, for arbitrary tables satisfying WF_parse and the viable-stack interface and arbitrary token streams, to execute exactly one step of the LR machine M(T) per loop iteration (shift/reduce/accept as the table entry says, goto lookup, stack discipline) and never to panic. That M(T) accepts exactly L(G) is the trusted LR theorem applied to tables validated by the bounded SYN sweep (generator half, labelled bounded).",
    "C03": "Run-time half: each reduce step calls the production's ReduceFunc exactly once (ghost call trace) with X = the top NumSymbols attributes in order (same backing array, so the same objects) and C = p.Context; a shift pushes the very token object the scanner returned; an action error ends Parse at once with an error carrying it; accept returns the attribute of the top symbol. Post-order evaluation follows from the trusted LR theorem. The rewriting of action text (SDTVal) and the default actions are checked by the generator-side contracts and bounded checks.",
    "C06": "Run-time half: on a syntax error with no recovery state Parse returns an error carrying the very token that had no action, the number of the state on top, and as expected list exactly the names of the non-nil entries of that state's row in column order (proved with the counting function CntRow); nothing further is scanned. Exactness of the row (canonical look-aheads) is the generator half, decided by the bounded SYN sweep.",
    "C07": "Error, popNonRecoveryStates, firstRecoveryState and Parse's recovery path are proved against the recovery rule of the property: discard above the topmost state that can shift the error symbol, push the error attribute (offending token, discarded attributes in stack order) on the state reached by shifting the error symbol, skip input starting with the offending token up to the first acceptable token but not past EOF, return the error otherwise; no panic (type assertion, indices); the skip loop terminates; tokens are consumed in input order (ghost scan counter).",
}.items():
    PROPS[_p] = {
        "level": "other" if _p in ("C02", "C03", "C06") else "proof",
        "prepare": prepare_expand,
        "govc": parse_govc(_p),
        "bounded": parse_bounded(_p),
        "extra": [extra_parametric_parser],
        "trusted_base": PARSE_TRUSTED,
        "assumptions": PARSE_ASSUME,
        "explanation": _txt,
    }

PROPS["C16"]["govc"] += parse_govc("C16")
PROPS["C16"]["bounded"] += parse_bounded("C16", 3, 4)
PROPS["C16"]["extra"].append(extra_parametric_parser)
PROPS["C16"]["assumptions"] = SCAN_ASSUME + PARSE_ASSUME
PROPS["C16"]["trusted_base"] = PARSE_TRUSTED
PROPS["C16"]["explanation"] += " Parser: Parse is proved with no assumption on what earlier calls left in the parser object (only p.stack != nil): Reset yields the one-element stack, nextToken is assigned before it is read, so the step contract makes result, error, expected list and action calls a function of tables, token stream and Context alone."


ACTION_CONTRACTS = "{repo}/internal/parser/lr1/action/zz_contracts_verif.go"
LR1ITEMS_CONTRACTS = "{repo}/internal/parser/lr1/items/zz_contracts_verif.go"
MAIN_CONTRACTS = "{repo}/zz_contracts_verif.go"


def gen_govc(prop):
    return [
        {"dir": "{repo}", "pkgs": ["./internal/parser/lr1/action", "./internal/parser/lr1/items"], "contracts": [ACTION_CONTRACTS, LR1ITEMS_CONTRACTS, "{repo}/internal/ast/zz_contracts_verif.go", "{repo}/internal/parser/first/zz_contracts_verif.go"], "prop": prop},
        {"dir": "{repo}", "pkgs": ["."], "contracts": [MAIN_CONTRACTS], "prop": prop},
        {"dir": "{repo}", "pkgs": ["./internal/parser/gen/golang", "./internal/ast"], "contracts": ["{repo}/internal/parser/gen/golang/zz_contracts_gen_verif.go", ACTION_CONTRACTS, LR1ITEMS_CONTRACTS, "{repo}/internal/ast/zz_contracts_verif.go", "{repo}/internal/parser/first/zz_contracts_verif.go"], "prop": prop},
    ]


PROPS["C05"] = {
    "level": "other",
    "govc": gen_govc("C05")[:1] + [{"dir": "{repo}", "pkgs": ["./internal/ast"], "contracts": ["{repo}/internal/ast/zz_contracts_verif.go"], "prop": "C05"}],
    "trusted_base": COMMON_TRUSTED + ["closed world of implementers of action.Action (Accept, Error, Reduce, Shift): dynamic calls are resolved by case analysis over their contracts"],
    "assumptions": [
        "String() methods of the action types are trusted to be free of side effects",
        "that the rendered table entry is the action computed by ItemSet.Action, and the consequence for the generated parser's verdict and reductions, are checked by the bounded SYN sweep of the LR validator (-a case) together with the run-time contracts of C02",
    ],
    "explanation": "Proved for all item sets and all item orders: Shift/Reduce/Error/Accept.ResolveConflict implement 'shift beats reduce, the lower production index beats the higher, no-action is neutral, accept conflicts are refused'; ItemSet.Action returns ERROR when no item proposes an action, a proposed action otherwise, a shift whenever a shift is proposed, else the reduce with the smallest production index (invariants are stated over the set of proposals of the item prefix, not over the fold order). 'Earliest' is the order of the grammar file: NewSyntaxProd turns the alternatives of a production into productions in the order in which they are written (the concatenation of the productions of different heads, `append(a, b...)` in AddSyntaxProds and augment, is outside the subset and covered by the SYN sweep).",
}

PROPS["C04"] = {
    "level": "other",
    "govc": gen_govc("C04"),
    "trusted_base": COMMON_TRUSTED + ["closed world of implementers of action.Action", "os.Exit(code) ends the process with status code mod 256"],
    "assumptions": [
        "config.Config accessors, io.WriteFileString, conflictString: trusted to be free of side effects on the data handleConflicts reads",
        "that the item sets are those of the canonical LR(1) automaton (so that 'two items propose different actions' is 'the grammar is not LR(1)') is the generator's global algorithm, decided by the bounded SYN sweep of the LR validator",
    ],
    "explanation": "Proved for all item sets: Item.action is the per-item proposal (accept / reduce on the item's look-ahead / shift on the expected symbol); ItemSet.Action reports conflicts exactly when two items propose different actions and panics exactly on a conflict involving accept; the table builders getActionRowData and getActionTableData (the plain, non -zip path) list a state exactly when one of its rows has a conflict and a symbol exactly when two items propose different actions for it; handleConflicts exits exactly when there are conflicts and -a is off, with a status that is non-zero modulo 256, and returns otherwise. (GenActionTable/Gen, which pass the map on through the template execution, and the -zip builder are not under contract.)",
}


SYMBOLS_CONTRACTS = "{repo}/internal/parser/symbols/zz_contracts_verif.go"
TOKEN_CONTRACTS = "{repo}/internal/token/zz_contracts_verif.go"

PROPS["C10"] = {
    "level": "other",
    "prepare": prepare_expand,
    "govc": [
        {"dir": "{repo}", "pkgs": ["./internal/parser/symbols"], "contracts": [SYMBOLS_CONTRACTS], "prop": "C10"},
        {"dir": "{repo}", "pkgs": ["./internal/token"], "contracts": [TOKEN_CONTRACTS], "prop": "C10"},
        {"dir": "{gen}/recover", "pkgs": ["./token"], "contracts": [STDLIB, TOKGEN_CONTRACTS], "prop": "C10"},
    ],
    "trusted_base": COMMON_TRUSTED + ["text/template expansion (the expanded token package is what is verified)"],
    "assumptions": [
        "that main hands the same TokenMap to the lexer, parser and token generators, and that the rendered typeMap/idMap literals are the map's contents, is checked on emitted packages by the bounded sweeps (LR validator: token.TokMap literals and action-table column order; lexer reference: ActTab numbers)",
        "Symbols.Add is called with an argument slice that does not alias the symbol table (precondition [noalias], true at both call sites)",
    ],
    "explanation": "Proved for all symbol sequences: Symbols keeps a bijection between names and consecutive numbers (Add preserves it, keeps earlier numbers and adds exactly its arguments); ListTerminals is the order-preserving duplicate-free list of non-production symbols and starts with INVALID, end-of-input unless those are production names; NewTokenMap numbers the list in order with mutually inverse maps; the generated TokenMap.Id/Type are the lookups with 'unknown'/INVALID defaults.",
}


def framecheck_shared(run):
    """C17: frame obligations (no write to / escape of package-level state outside init) over go/ssa on the expanded packages"""
    import common as C, json, os
    tool = C.ensure_tool("framecheck", "tools/framecheck")
    tot = {"name": "FRAME no-shared-write / no-shared-escape (go/ssa)", "obligations": 0, "discharged": 0, "violations": [], "samples": [], "backend": "FRAME", "must_have_obligations": True, "carriers": []}
    for c in ("lexonly", "recover", "recover_zip", "conflict_zip", "recover_dbg"):
        d = run.carriers[c]
        pk = [p for p in ("lexer", "parser", "token", "errors", "util") if os.path.isdir(os.path.join(d, p))]
        out = os.path.join(run.work, "frame-%s.json" % c)
        rc, o = C.sh([tool, "shared", "-dir", d, "-pkgs", ",".join("./" + p for p in pk), "-out", out], cwd=d)
        if rc == 2 or not os.path.exists(out):
            raise C.EngineError("framecheck failed on carrier %s:\n%s" % (c, o[-2000:]))
        r = json.load(open(out))
        tot["obligations"] += r["obligations"]
        tot["discharged"] += r["discharged"]
        tot["carriers"].append({"carrier": c, "functions": r["functions"], "package_level_variables": r["package_level_variables"]})
        tot["samples"] += [{"carrier": c, "frame": x} for x in (r.get("samples") or [])[:3]]
        for f in r.get("findings") or []:
            tot["violations"].append({"id": "%s %s %s" % (f["obligation"], f["func"], f["what"]), "obligation": f["obligation"], "function": f["func"], "pos": f["pos"], "what": f["what"], "carrier": c, "input": None})
    tot["cases"] = tot["obligations"]
    return tot


PROPS["C17"] = {
    "level": "proof",
    "prepare": prepare_expand,
    "extra": [framecheck_shared],
    "checker_cmd": "bin/framecheck shared -dir <expanded carrier> -pkgs ./lexer,./parser,./token,./errors,./util",
    "trusted_base": ["Go compiler, run-time, go/types and golang.org/x/tools/go/ssa", "framecheck (tools/framecheck), the frame checker written for this task (mitigated by the seeded changes under seeded/C17-*)",
                     "package initialisation (init functions, the -zip decoders) happens-before main by the Go memory model", "text/template expansion (the expanded packages are what is checked)"],
    "assumptions": [
        "data-race-freedom argument: a goroutine whose code performs no write to memory reachable from a package-level variable, and hands out no mutable reference to it, depends only on its own objects and on immutable data; interleavings are NOT explored",
        "user-supplied code (semantic actions, Scanner implementations, Context values) is outside the claim; calls through function values are assumed not to write their arguments",
        "fmt, strings, bytes, strconv, unicode/utf8, errors, os, io only read their arguments",
    ],
    "technique": "contract-based verification, frame conditions: per-function frame obligations (no write to, no escape of, package-level state) discharged by a taint analysis over go/ssa on the expanded generated packages",
    "explanation": "Frame obligations for every function of the generated lexer, parser, token, errors and util packages (plain, -zip and debug expansions) except package initialisers: [no-shared-write] no store, map update, append/copy destination or callee-written argument derives from a package-level variable; [no-shared-escape] no mutable reference derived from a package-level variable is stored into an object, returned or kept by a callee. With both discharged every goroutine only writes its own objects, which is the part of C17 this family can carry; interleavings are not explored.",
}


def corpus_grammars(run):
    import glob, os
    gs = sorted(glob.glob(os.path.join(run.repo, "example", "*", "*.bnf")) + glob.glob(os.path.join(run.repo, "internal", "test", "*", "*.bnf")))
    gs += sorted(g for g in glob.glob(os.path.join(os.path.dirname(os.path.dirname(__file__)), "carriers", "*.bnf")) if not g.endswith("wide.bnf"))
    gs += sorted(g for g in glob.glob(os.path.join(os.path.dirname(os.path.dirname(__file__)), "corpus", "*.bnf")) if "reserved_" not in g)
    return gs


def tree_digest(d):
    import hashlib, os
    h = hashlib.sha256()
    for dp, dn, fn in sorted(os.walk(d)):
        dn.sort()
        for f in sorted(fn):
            if f in ("go.mod", "g.bnf"):
                continue
            p = os.path.join(dp, f)
            h.update(os.path.relpath(p, d).encode())
            h.update(open(p, "rb").read())
    return h.hexdigest()


def run_gocc(run, gocc, grammar, flags, d, env=None, timeout=60):
    import common as C, os, shutil
    os.makedirs(d, exist_ok=True)
    open(os.path.join(d, "go.mod"), "w").write("module gen\n\ngo 1.24\n")
    shutil.copy(grammar, os.path.join(d, "g.bnf"))
    e = dict(C.GOENV)
    e.update(env or {})
    try:
        rc, o = C.sh([gocc] + flags + ["g.bnf"], cwd=d, env=e, timeout=timeout)
    except Exception as ex:  # timeout
        return -9, "timeout: %s" % ex
    return rc, o


def framecheck_inventory(run):
    """C11: inventory obligations over the generator (no concurrency, no ambient input, every map range classified)"""
    import common as C, json, os
    tool = C.ensure_tool("framecheck", "tools/framecheck")
    out = os.path.join(run.work, "inventory.json")
    rc, o = C.sh([tool, "inventory", "-dir", run.repo, "-pkgs", ".", "-allow", os.path.join(C.VERIF, "contracts", "c11_map_ranges.txt"), "-out", out], cwd=run.repo)
    if rc == 2 or not os.path.exists(out):
        raise C.EngineError("framecheck inventory failed:\n" + o[-2000:])
    r = json.load(open(out))
    v = [{"id": "%s %s" % (f["obligation"], f["what"]), "obligation": f["obligation"], "function": f["func"], "pos": f["pos"], "what": f["what"], "input": None} for f in r.get("findings") or []]
    return {"name": "FRAME inventory of nondeterminism sources (go/ast + go/types)", "obligations": r["obligations"], "discharged": r["discharged"], "violations": v,
            "samples": [{"map_range": x} for x in (r.get("samples") or [])[:8]], "backend": "FRAME", "must_have_obligations": True, "cases": r["obligations"], "functions": r["functions"]}


def determinism_runs(run):
    """bounded cross-check / search for a differing pair: repeated runs with different GOMAXPROCS must be byte-identical"""
    import expand, os
    gocc = expand.build_gocc(run)
    n = 4 if run.tier == "quick" else 16
    viol, cases, samples = [], 0, []
    for g in corpus_grammars(run):
        for flags in ([], ["-a"]):
            ref = None
            for i in range(n):
                d = os.path.join(run.work, "det", "%s-%d-%d" % (os.path.basename(g), len(flags), i))
                rc, o = run_gocc(run, gocc, g, flags, d, env={"GOMAXPROCS": str(1 + (i % 4) * 5)})
                cur = (rc, tree_digest(d), "\n".join(l for l in o.split("\n") if "conflict" in l.lower()))
                cases += 1
                if ref is None:
                    ref = cur
                elif cur != ref and len(viol) < 5:
                    viol.append({"id": "nondeterministic output for %s %s" % (os.path.basename(g), flags), "input": {"grammar": g, "flags": flags, "runs": n}, "what": "two runs of gocc on the same grammar differ (status/digest/conflict line): %s vs %s" % (ref[:2], cur[:2])})
            if len(samples) < 6:
                samples.append({"grammar": os.path.basename(g), "flags": flags, "runs": n, "status": ref[0], "digest": ref[1][:12]})
    return {"name": "REPEAT gocc runs, outputs byte-identical (bounded, not counted as proof)", "cases": cases, "evaluations": cases, "violations": viol, "samples": samples}


PROPS["C11"] = {
    "level": "proof",
    "extra": [framecheck_inventory, determinism_runs],
    "checker_cmd": "bin/framecheck inventory -dir /repo -pkgs . -allow contracts/c11_map_ranges.txt",
    "trusted_base": ["Go compiler, run-time, go/types", "framecheck (tools/framecheck) and its category checks (mitigated by the seeded changes under seeded/C11-*)",
                     "encoding/gob, compress/gzip (zero mtime header), go/format and text/template (sorted map ranges) are deterministic"],
    "assumptions": [
        "category 'sink' is established per entry by reading the function: its result reaches only stderr/stdout messages or the -v text files, never a generated .go file, the exit status or the conflict count (ItemSet.Action: only len(conflicts) is used for those); the mechanical check then confirms the loop's effects stay confined to the variables named in the entry",
        "category 'insert' (commutative, idempotent set insertion) and 'search' (constant result) are order-insensitive by their shape; 'sorted' relies on sort.Strings being a total order on distinct keys",
        "os.Getwd in internal/config is part of the configuration ('in the same directory')",
    ],
    "technique": "contract-based verification, frame/inventory obligations: every source of nondeterminism reachable in the generator (concurrency, ambient inputs, each range over a map) is an obligation discharged against a committed inventory by mechanical shape checks over go/ast+go/types",
    "explanation": "Deductive treatment of the sources of nondeterminism: no goroutine/channel/sync/time/rand/env use in the module; each of the 20 ranges over maps is classified (sorted-before-use, commutative insert, constant search, diagnostic sink, empty by construction) and the classification is re-checked mechanically on every run, so a new unsorted map range, a removed sort, or a goroutine leaves an undischarged obligation naming the loop. Repeated gocc runs with different GOMAXPROCS are a bounded cross-check and the search for a concrete differing pair.",
}


PROPS["C01"] = {
    "level": "other",
    "prepare": prepare_expand,
    "govc": [{"dir": "{gen}/" + c, "pkgs": ["./lexer"], "contracts": [STDLIB, LEXGEN_CONTRACTS], "prop": "C01"} for c in ("lexonly", "recover")]
            + [{"dir": "{repo}", "pkgs": ["./internal/lexer/items", "./internal/ast"], "contracts": [ITEMS_CONTRACTS, AST_CONTRACTS], "prop": "C01"},
               {"dir": "{repo}", "pkgs": ["./internal/lexer/gen/golang"], "contracts": ["{repo}/internal/lexer/gen/golang/zz_contracts_gen_verif.go", ITEMS_CONTRACTS, AST_CONTRACTS], "prop": "C01"}],
    "bounded": scan_bounded("C01"),
    "extra": [extra_parametric_lexer],
    "trusted_base": COMMON_TRUSTED + ["text/template expansion (the expanded lexer package is what is verified)"],
    "assumptions": SCAN_ASSUME + ["Live and IgnChain are inductive predicates given by introduction rules only (sound for the least fixed point)",
                                  "generator side: ItemSet.Action (which pattern a lexer state accepts: a string literal of the syntax part wins over every named pattern, otherwise the earliest declared pattern; nil when no token or ignored-token pattern is completely matched) is proved for all item lists, with Item.Reduce trusted to be a pure function of the item; getActTab (the action row of a state: Accept = 0, i.e. INVALID, and no ignore name for a state without a complete match, the token package's number of the winning token, or -1 and the name of the winning ignored token) is proved for all automata and token maps; the subset construction itself (Emoves, Move, Next, ItemSets.Closure) and the table rendering are decided by the bounded LEX sweep only"],
    "explanation": "Run-time half, proved for arbitrary WF_lex tables and arbitrary byte strings (ill-formed UTF-8 included): one Scan call skips a chain of ignored lexemes each taken as soon as it is complete, then follows the DFA run from state 0 for as long as a transition exists and returns the verdict of the last state (token with exactly that text; INVALID, consuming the rune that killed the run, when the last state has no verdict or no rune could be read), and EOF for ever once the input is exhausted. Generator half (the emitted DFA is the automaton of the lexical rules: subset construction, priorities, '.' semantics, regular definitions): bounded sweep against an independent reference automaton, labelled bounded.",
}


def sweep_tool(run, tool, srcdir, args_extra=()):
    """runs a sweep tool (lexref / lrref) against gocc built from the working tree; returns its JSON"""
    import common as C, expand, json, os
    import hashlib
    gocc = expand.build_gocc(run)
    exe = C.ensure_tool(tool, srcdir)
    out = os.path.join(run.work, "%s-%s.json" % (tool, run.tier))
    cmd = [exe, "sweep", "-gocc", gocc, "-scope", run.tier, "-seed", str(run.seed), "-out", out] + list(args_extra)
    # the sweep is a deterministic function of (tool, gocc binary, scope, seed): share it between the checks of one sandbox
    key = hashlib.sha256(open(exe, "rb").read() + open(gocc, "rb").read() + (" ".join(cmd[4:6] + cmd[6:8] + list(args_extra))).encode()).hexdigest()[:24]
    cpath = os.path.join(C.VERIF, ".cache", "sweep", "%s-%s.json" % (tool, key))
    if os.path.exists(cpath) and not os.environ.get("VERIF_NO_CACHE"):
        r = json.load(open(cpath))
        r["cached"] = True
        return r
    env = dict(C.GOENV, TMPDIR=run.work)
    rc, o = C.sh(cmd, cwd=run.work, env=env, timeout=6 * 3600)
    if not os.path.exists(out):
        raise C.EngineError("%s sweep failed (rc=%d):\n%s" % (tool, rc, o[-2000:]))
    r = json.load(open(out))
    r["cmd"] = " ".join(cmd)
    # A per-case time limit is wall-clock time and can be hit only because the machine is busy (the sweep runs 16 gocc
    # processes at a time): every case that timed out is run again on its own; what that run says replaces the timeout.
    touts = [x for x in (r.get("fails") or []) if x.get("kind") == "timeout"]
    if touts and len(touts) <= 200:
        ids = sorted(set(x["id"] for x in touts))
        still, extra_fails = 0, []
        for cid in ids:
            out1 = os.path.join(run.work, "%s-retry-%s.json" % (tool, cid))
            cmd1 = [exe, "sweep", "-gocc", gocc, "-scope", run.tier, "-seed", str(run.seed), "-out", out1, "-only", cid, "-j", "1"] + list(args_extra)
            C.sh(cmd1, cwd=run.work, env=env, timeout=1800)
            if not os.path.exists(out1):
                still += 1
                extra_fails += [x for x in touts if x["id"] == cid]
                continue
            r1 = json.load(open(out1))
            f1 = [x for x in (r1.get("fails") or []) if x.get("id") == cid]
            still += len([x for x in f1 if x.get("kind") == "timeout"])
            extra_fails += f1
        r["fails"] = [x for x in (r.get("fails") or []) if x.get("kind") != "timeout"] + extra_fails
        r["timeouts_first_pass"] = len(touts)
        r["timeouts"] = still
    if not r.get("timeouts"):
        os.makedirs(os.path.dirname(cpath), exist_ok=True)
        json.dump(r, open(cpath, "w"))
    return r


def lexref_sweep(kinds):
    def f(run):
        r = sweep_tool(run, "lexref", "tools/lexref")
        viol = []
        for x in r.get("fails") or []:
            is_timeout = x["kind"] == "timeout"
            if ("timeout" in kinds) != is_timeout and not ("timeout" in kinds and "other" in kinds):
                if is_timeout != ("timeout" in kinds):
                    continue
            viol.append({"id": "lexref %s/%s case %s" % (x["kind"], x.get("family"), x["id"]), "case_id": x["id"], "what": x.get("msg"), "kind": x["kind"], "family": x.get("family"),
                         "input": {"grammar": x["grammar"], "witness_input_hex": x.get("witness_input_hex"), "tool": "lexref", "case": x["id"]}})
        return {"name": "LEX sweep: emitted DFA bisimilar to the reference automaton of the lexical rules (bounded over grammars, all inputs)", "cases": r["cases"], "evaluations": r["cases"],
                "scope": {k: r.get(k) for k in ("scope", "scope_cases_per_stratum", "with_regdefs", "scope_nullable_body_skipped", "timeouts")}, "violations": viol,
                "samples": (r.get("samples") or [])[:4] if isinstance(r.get("samples"), list) else [], "cmd": r["cmd"], "label": "bounded - never counted as proved"}
    return f


PROPS["C01"]["extra"].append(lexref_sweep(("bisim", "wf", "parse", "gocc-error", "other")))


def c12_erasure(run):
    import common as C, json, os
    tool = C.ensure_tool("framecheck", "tools/framecheck")
    tot = {"name": "FRAME erasure of debug statements (go/ast)", "obligations": 0, "discharged": 0, "violations": [], "samples": [], "backend": "FRAME", "must_have_obligations": True}
    for plain, dbg in (("lexonly", "lexonly_dbg"), ("recover", "recover_dbg")):
        out = os.path.join(run.work, "erasure-%s.json" % plain)
        pk = [p for p in ("lexer", "parser", "token", "errors", "util") if os.path.isdir(os.path.join(run.carriers[plain], p))]
        rc, o = C.sh([tool, "erasure", "-plain", run.carriers[plain], "-debug", run.carriers[dbg], "-pkgs", ",".join(pk), "-out", out])
        if rc == 2 or not os.path.exists(out):
            raise C.EngineError("framecheck erasure failed:\n" + o[-2000:])
        r = json.load(open(out))
        tot["obligations"] += r["obligations"]
        tot["discharged"] += r["discharged"]
        tot["samples"] += [{"carrier": dbg, "erased": x} for x in (r.get("samples") or [])[:3]]
        for f in r.get("findings") or []:
            tot["violations"].append({"id": "%s (%s)" % (f["obligation"], dbg), "obligation": f["obligation"], "function": f["func"], "what": f["what"], "input": None})
    tot["cases"] = tot["obligations"]
    return tot


def c12_zip_tables(run):
    """GROUND: the tables the run-time sees are cell-for-cell equal between the plain and the -zip expansion"""
    import common as C, json, os, shutil
    import expand
    viol, cells, samples = [], 0, []
    carriers = dict(run.carriers)
    carriers.update(expand.expand(run, ["wide", "wide_zip"]))  # more than 256 terminals: columns beyond one byte
    for plain, z in (("recover", "recover_zip"), ("conflict", "conflict_zip"), ("wide", "wide_zip")):
        dumps = {}
        for c in (plain, z):
            d = carriers[c]
            shutil.copy(os.path.join(C.VERIF, "harness/tables/verif_tables_test.go"), os.path.join(d, "parser", "verif_tables_test.go"))
            out = os.path.join(run.work, "tables-%s.json" % c)
            rc, o = C.sh(["go", "test", "-vet=off", "-count=1", "-run", "TestVerifDumpTables", "./parser"], cwd=d, env=dict(C.GOENV, VERIF_OUT=out), timeout=600)
            if not os.path.exists(out):
                viol.append({"id": "zip-tables:%s does not build or panics in init" % c, "what": o[-800:], "input": {"carrier": c}})
                continue
            dumps[c] = json.load(open(out))
        if len(dumps) == 2:
            a, b = dumps[plain], dumps[z]
            n = sum(len(r["actions"]) for r in a["actionTab"]) + sum(len(g) for g in a["gotoTab"]) + len(a["productionsTable"])
            cells += n
            for k in ("actionTab", "gotoTab", "productionsTable", "numStates", "numSymbols"):
                if a[k] != b[k]:
                    viol.append({"id": "zip-tables:%s differs between %s and %s" % (k, plain, z), "what": "decoded -zip table differs from the plain table", "input": {"carriers": [plain, z], "table": k}})
            samples.append({"grammar": plain, "cells_compared": n, "states": a["numStates"]})
    return {"name": "GROUND plain vs -zip tables as seen by the run-time", "cases": cells, "cells_checked": cells, "violations": viol, "samples": samples}


def c12_flag_outputs(run):
    """bounded over the grammar corpus: presentation flags change only the files they are meant to change"""
    import expand, os, filecmp
    gocc = expand.build_gocc(run)
    viol, cases, samples = [], 0, []

    def files(d):
        out = {}
        for dp, dn, fn in os.walk(d):
            for f in fn:
                if f.endswith(".go"):
                    p = os.path.join(dp, f)
                    out[os.path.relpath(p, d)] = open(p, "rb").read()
        return out

    allowed = {"-v": set(), "-no_lexer": None, "-zip": {"parser/actiontable.go", "parser/gototable.go"}, "-debug_lexer": {"lexer/lexer.go"}, "-debug_parser": {"parser/parser.go"}}
    for g in corpus_grammars(run):
        base_d = os.path.join(run.work, "flags", os.path.basename(g) + "-base")
        rc0, o0 = run_gocc(run, gocc, g, ["-a"], base_d)
        base = files(base_d)
        for flag, may in allowed.items():
            d = os.path.join(run.work, "flags", os.path.basename(g) + flag)
            rc, o = run_gocc(run, gocc, g, ["-a", flag], d)
            cur = files(d)
            cases += 1
            if rc != rc0:
                viol.append({"id": "flag %s changes the exit status for %s" % (flag, os.path.basename(g)), "input": {"grammar": g, "flags": ["-a", flag]}, "what": "status %s vs %s" % (rc, rc0)})
                continue
            for rel in sorted(set(base) | set(cur)):
                if flag == "-no_lexer" and rel.startswith("lexer/"):
                    if rel in cur:
                        viol.append({"id": "-no_lexer still writes %s for %s" % (rel, os.path.basename(g)), "input": {"grammar": g, "flags": ["-a", flag]}, "what": "lexer file written"})
                    continue
                if may and rel in may:
                    continue
                if base.get(rel) != cur.get(rel) and len(viol) < 8:
                    viol.append({"id": "flag %s changes %s for %s" % (flag, rel, os.path.basename(g)), "input": {"grammar": g, "flags": ["-a", flag], "file": rel}, "what": "generated file differs from the one generated without the flag"})
        if len(samples) < 5:
            samples.append({"grammar": os.path.basename(g), "files": len(base), "flags": list(allowed)})
    return {"name": "FLAGS outputs identical outside the files a flag is meant to change (bounded corpus)", "cases": cases, "evaluations": cases, "violations": viol, "samples": samples}


PROPS["C12"] = {
    "level": "other",
    "prepare": prepare_expand,
    "govc": [{"dir": "{gen}/lexonly_dbg", "pkgs": ["./lexer"], "contracts": [STDLIB, TOKGEN_CONTRACTS, LEXGEN_CONTRACTS, "{verif}/contracts/debug_pure.go"], "prop": "C01"},
             {"dir": "{gen}/recover_dbg", "pkgs": ["./parser", "./token"], "contracts": [STDLIB, TOKGEN_CONTRACTS, PARGEN_CONTRACTS, "{verif}/contracts/debug_pure.go"], "prop": "C02"},
             {"dir": "{gen}/recover_zip", "pkgs": ["./parser", "./token"], "contracts": [STDLIB, TOKGEN_CONTRACTS, PARGEN_CONTRACTS], "prop": "C02"}],
    "extra": [c12_erasure, c12_zip_tables, c12_flag_outputs],
    "trusted_base": PARSE_TRUSTED + ["encoding/gob and compress/gzip round trip (decode(encode(x)) = x); cross-checked by the cell-for-cell comparison of the decoded tables"],
    "assumptions": SCAN_ASSUME + PARSE_ASSUME + [
        "debug helpers (TokMap.Id, TokMap.TokenString, util.RuneToString, String methods) are trusted to be free of side effects (contracts/debug_pure.go); the erasure check confirms that only calls to them occur in debug statements",
        "-v and -no_lexer: that the flags reach only the code that writes the five text files / the lexer package is checked on a corpus of grammars (bounded), not proved over main",
    ],
    "explanation": "Debug flags: the Scan and Parse contracts (deterministic post-conditions) are re-proved on the -debug_lexer/-debug_parser expansions, and an erasure obligation per function shows the debug expansion is the plain one plus fmt.Printf statements with side-effect free arguments; hence both variants return the same tokens, results, errors and positions. -zip: the same run-time contracts are proved on the -zip expansion and the decoded tables are compared cell for cell with the plain ones (ground, per grammar). -v/-no_lexer: generated files compared on a corpus (bounded).",
}


def lrref_sweep(kinds=None, name="SYN sweep"):
    """bounded over the SYN scope: emitted tables against the independent canonical LR(1) reference"""
    def f(run):
        r = sweep_tool(run, "lrref", "tools/lrref")
        viol = []
        for x in r.get("fails") or []:
            if kinds and x["kind"] not in kinds:
                continue
            viol.append({"id": "lrref %s case %s" % (x["kind"], x["id"]), "case_id": x["id"], "what": x.get("msg"), "kind": x["kind"],
                         "input": {"grammar": x["grammar"], "flags": x.get("flags"), "tool": "lrref", "case": x["id"]}})
        return {"name": name + ": emitted tables equal the canonical LR(1) reference (bounded over grammars, every cell)", "cases": r["cases"], "evaluations": r["cases"],
                "scope": {k: r.get(k) for k in ("scope", "grammars", "conflict_free", "conflicting", "accept_conflicts", "tables_checked", "language_checked", "timeouts")},
                "violations": viol, "samples": (r.get("samples") or [])[:4] if isinstance(r.get("samples"), list) else [], "cmd": r["cmd"], "label": "bounded - never counted as proved"}
    return f


LR_KINDS_ALL = None
for _p in ("C02", "C04", "C05", "C06", "C07", "C10"):
    PROPS[_p].setdefault("extra", []).append(lrref_sweep())


def lrref_tables(run):
    """C15: complete translation validation of the checked-in front-end tables against spec/gocc2.ebnf"""
    import common as C, json, os
    exe = C.ensure_tool("lrref", "tools/lrref")
    out = os.path.join(run.work, "lrtables.json")
    rc, o = C.sh([exe, "tables", "-repo", run.repo, "-out", out], cwd=run.work)
    if not os.path.exists(out):
        raise C.EngineError("lrref tables failed (rc=%d):\n%s" % (rc, o[-2000:]))
    r = json.load(open(out))
    viol = []
    for m in (r.get("mismatches") or []) if isinstance(r.get("mismatches"), list) else []:
        viol.append({"id": "front-end table mismatch %s" % json.dumps(m)[:200], "what": json.dumps(m), "input": m})
    if isinstance(r.get("mismatches"), int) and r["mismatches"] > 0:
        viol.append({"id": "front-end table mismatches", "what": o[-1500:], "input": {"count": r["mismatches"]}})
    if not r.get("production_bijection", False):
        viol.append({"id": "front-end productions not in bijection with spec/gocc2.ebnf", "what": o[-1500:], "input": {}})
    if r.get("canrecover_rows"):
        viol.append({"id": "front-end table has recovery states", "what": "canRecover rows: %s" % r["canrecover_rows"], "input": {}})
    return {"name": "TABLES front-end tables vs spec/gocc2.ebnf (complete, finite)", "programs": 1, "disagreements_checked": r.get("cells_checked", 0), "cells_checked": r.get("cells_checked", 0), "exhaustive": True,
            "cases": r.get("cells_checked", 0), "violations": viol,
            "samples": [{"states": r.get("states"), "action_cells": r.get("action_cells"), "goto_cells": r.get("goto_cells"), "productions": r.get("productions"), "canonical_lr1_states": r.get("canonical_lr1_states"),
                         "error_shift_states": r.get("error_shift_states"), "index_map": r.get("index_map")}],
            "cmd": "bin/lrref tables -repo /repo"}


PROPS["C15"] = {
    "level": "translation_validation",
    "extra": [lrref_tables],
    "checker_cmd": "bin/lrref tables -repo /repo",
    "trusted_base": ["LR theorem (Aho-Sethi-Ullman 4.7; Jourdan-Pottier-Leroy ESOP 2012 for validators of this shape): a conflict-free automaton whose actions agree with the least closed LR(1) item annotation accepts exactly L(G) and reduces by the annotated productions",
                     "lrref (tools/lrref), the validator written for this task: independent reader of spec/gocc2.ebnf, go/parser based reader of tables.go (mitigated by its own must-fail tests and the seeded changes seeded/C15-*)", "Go compiler and go/parser"],
    "assumptions": [
        "the front-end Parse function executes the LR machine of the tables: same code shape as the generated parser whose step contract is proved (C02/C07); its contracts on the hand-maintained copy are the C14 check",
        "\"error\" and \"empty\" are read as ordinary literal terminals, as the property states",
    ],
    "technique": "translation validation of the checked-in LR(1) tables: per-cell obligations (least closed item annotation, action/goto agreement, production bijection by head and body, reduce-function text) evaluated completely; finite and exhaustive",
    "explanation": "Every one of the 2640 action cells and 1920 goto cells of the checked-in front-end tables is validated against the least LR(1) item annotation of spec/gocc2.ebnf (no state numbering assumed), the productions are in bijection by head and body with the spec (indices may differ), each ReduceFunc equals the spec action after $-rewriting, all states are reachable, no cell has two candidates and no row is a recovery state. With the trusted LR theorem the accepted token language is exactly that of the spec grammar.",
}


def c14_illformed(run):
    """bounded: a hand-made corpus of ill-formed grammars, one per documented rule; each must end with a non-zero status"""
    import expand, glob, os
    gocc = expand.build_gocc(run)
    viol, cases, samples = [], 0, []
    for g in sorted(glob.glob(os.path.join(os.path.dirname(os.path.dirname(__file__)), "corpus", "illformed", "*.bnf"))):
        d = os.path.join(run.work, "illformed", os.path.basename(g))
        rc, o = run_gocc(run, gocc, g, [], d, timeout=30)
        cases += 1
        name = os.path.basename(g)[:-4]
        if rc == 0:
            viol.append({"id": "ill-formed grammar accepted: " + name, "what": "gocc exits with status 0 on corpus/illformed/%s.bnf" % name, "input": {"grammar_file": g, "grammar": open(g).read()}})
        samples.append({"grammar": name, "status": rc})
    return {"name": "ILLFORMED corpus: every ill-formed grammar is rejected (bounded)", "cases": cases, "evaluations": cases, "violations": viol, "samples": samples[:6]}


def c14_files(run):
    import os
    fs = [g for g in corpus_grammars(run) if "illformed" not in g and not g.endswith("t2.bnf")]
    fs.append(os.path.join(run.repo, "spec", "gocc2.ebnf"))
    return ",".join(fs)


PROPS["C14"] = {
    "level": "other",
    "bounded": [{
        "name": "FRONTEND-MUT", "stands_in_for": ["parser.(*Parser).Parse", "parser.(*Parser).Error"],
        "overlay": {"{repo}/internal/frontend/parser/verif_frontend_test.go": "harness/frontend/verif_frontend_test.go"},
        "pkg": "./internal/frontend/parser", "run": "TestVerifFrontend",
        "env": {"VERIF_FRONTEND": lambda run: "files:%d:%s" % (3 if run.tier == "quick" else 1, c14_files(run))}, "replay_env": "VERIF_FRONTEND",
    }],
    "extra": [c14_illformed],
    "trusted_base": COMMON_TRUSTED,
    "assumptions": [
        "bounded: single-token deletion, duplication, insertion and substitution at the sampled positions of the corpus grammars (every 3rd position in the quick tier, every position in the thorough tier); an accepted run must have consumed every scanned token and shifted no phantom error symbol",
        "the documented rules (undefined production or regular definition, duplicate definitions, empty alternative, token-level errors) are represented by one hand-made grammar each in corpus/illformed",
    ],
    "explanation": "Deductive part: the generated parser template, whose Error/Parse contracts are proved (C07), and gocc's own parser share the recovery code; the front-end contracts (no recovery state in the checked-in tables, hence Error never recovers and Parse accepts only when every scanned token was shifted) are stated on internal/frontend/parser and discharged by govc where the engine reaches them; the bounded token-mutation run and the ill-formed corpus decide the rest and are labelled bounded.",
}


AST_CONTRACTS = "{repo}/internal/ast/zz_contracts_verif.go"


def c13_deadfield(run):
    import common as C, json, os
    tool = C.ensure_tool("framecheck", "tools/framecheck")
    out = os.path.join(run.work, "deadfield.json")
    rc, o = C.sh([tool, "deadfield", "-dir", run.repo, "-pkgs", ".", "-type", "ast.LexCharLit", "-field", "Lit", "-out", out], cwd=run.repo)
    if rc == 2 or not os.path.exists(out):
        raise C.EngineError("framecheck deadfield failed:\n" + o[-2000:])
    r = json.load(open(out))
    v = [{"id": f["obligation"] + " " + f["pos"], "obligation": f["obligation"], "what": f["what"], "pos": f["pos"], "input": None} for f in r.get("findings") or []]
    return {"name": "FRAME dead field ast.LexCharLit.Lit (the source spelling of a character literal is never read)", "obligations": r["obligations"], "discharged": r["discharged"], "violations": v,
            "samples": [{"frame": x} for x in r.get("samples") or []], "backend": "FRAME", "cases": 1}


def c13_respell(run):
    import respell, sys
    return respell.respell_check(run, sys.modules[__name__])


PROPS["C13"] = {
    "level": "other",
    "govc": [{"dir": "{repo}", "pkgs": ["./internal/ast"], "contracts": [AST_CONTRACTS], "prop": "C13"},
             {"dir": "{repo}", "pkgs": ["./internal/util"], "contracts": [STDLIB, UTIL_CONTRACTS], "prop": "C13"}],
    "extra": [c13_deadfield, c13_respell],
    "trusted_base": COMMON_TRUSTED,
    "assumptions": [
        "layout invariance (white space, line breaks, // and /* */ comments at token boundaries) is a relational two-run property of the hand-written scanner; the function-at-a-time engine does not state it: it is decided by the bounded respelling run only (every sampled single insertion of eight layout strings at token boundaries, one all-boundaries variant, every respelling of the sampled character literals, both quoting styles) on the grammar corpus",
        "util.RuneToString is a function of the code point only (trusted contract), util.LitToRune's value depends only on the literal's bytes and equals Go's value of the literal (proved under C20)",
    ],
    "explanation": "Deductive part: a character literal is stored by value (LitToRune, proved to be Go's value of the literal whatever its spelling) and its rendering is the canonical RuneToString of that value; the field keeping the source spelling is never read anywhere in the module (dead-field frame obligation); NewStringLit keeps exactly the bytes strictly between the first and last byte of the token for either quoting style. Layout invariance and the end-to-end byte-identity are decided by the bounded respelling run, labelled bounded.",
}


def c09_matrix(run):
    """bounded/finite: flag subsets x output directory x -p; status 0 must mean: every required file written under the
    output directory, import paths resolve, packages compile"""
    import expand, itertools, os, common as C
    gocc = expand.build_gocc(run)
    base = os.path.dirname(os.path.dirname(__file__))
    grammars = [os.path.join(base, "carriers", "conflict.bnf"), os.path.join(base, "carriers", "lexonly.bnf"), os.path.join(base, "corpus", "hostile.bnf"), os.path.join(base, "corpus", "hostile_backquote.bnf")]
    flags = ["-a", "-zip", "-no_lexer", "-debug_lexer", "-debug_parser", "-v"]
    configs = []
    for bits in itertools.product([0, 1], repeat=len(flags)):
        for o in (".", "sub", "sub/dir"):
            for pflag in (False, True):
                configs.append(([f for f, b in zip(flags, bits) if b], o, pflag))
    if run.tier == "quick":
        # deterministic sample: every flag on and off with every output directory
        configs = [c for i, c in enumerate(configs) if i % 17 == (run.seed % 17)][:24]
    viol, cases, samples = [], 0, []
    from concurrent.futures import ThreadPoolExecutor

    def one(job):
        g, (fl, o, pflag) = job
        has_syntax = "lexonly" not in g
        d = os.path.join(run.work, "matrix", "%s-%d" % (os.path.basename(g), abs(hash((tuple(fl), o, pflag))) % 10**8))
        os.makedirs(d, exist_ok=True)
        open(os.path.join(d, "go.mod"), "w").write("module gen\n\ngo 1.24\n")
        import shutil
        shutil.copy(g, os.path.join(d, "g.bnf"))
        args = list(fl)
        if o != ".":
            args += ["-o", o]
        if pflag:
            args += ["-p", "gen" if o == "." else "gen/ignored"]
        try:
            rc, out = C.sh([gocc] + args + ["g.bnf"], cwd=d, timeout=60)
        except Exception as ex:
            return (job, "timeout", "gocc did not terminate within 60 s: %s" % ex)
        if rc != 0:
            expected_fail = ("-no_lexer" in fl and "-debug_lexer" in fl) or ("-a" not in fl and "conflict" in g)
            shutil.rmtree(d, ignore_errors=True)
            return (job, None if expected_fail else "status", "unexpected status %d: %s" % (rc, out[-300:]))
        od = os.path.join(d, o)
        need = ["token/token.go", "token/context.go", "util/litconv.go", "util/rune.go"]
        if "-no_lexer" not in fl:
            need += ["lexer/lexer.go", "lexer/transitiontable.go", "lexer/acttab.go"]
        if has_syntax:
            need += ["parser/action.go", "parser/actiontable.go", "parser/context.go", "parser/gototable.go", "parser/parser.go", "parser/productionstable.go", "errors/errors.go"]
        missing = [n for n in need if not os.path.exists(os.path.join(od, n)) or os.path.getsize(os.path.join(od, n)) == 0]
        if missing:
            shutil.rmtree(d, ignore_errors=True)
            return (job, "missing", "status 0 but missing or empty: %s" % missing)
        rc2, out2 = C.sh(["go", "build", "./..."], cwd=d, timeout=300)
        shutil.rmtree(d, ignore_errors=True)
        if rc2 != 0:
            return (job, "compile", "status 0 but the packages do not compile: %s" % out2[-400:])
        return (job, None, "")

    jobs = [(g, c) for g in grammars for c in configs]
    with ThreadPoolExecutor(max_workers=8) as ex:
        for (g, (fl, o, pflag)), kind, msg in ex.map(one, jobs):
            cases += 1
            if kind and len(viol) < 12:
                name = os.path.basename(g)[:-4]
                vid = "C09 matrix %s: %s" % (kind, name) if "backquote" in name else "C09 matrix %s: %s flags=%s -o %s -p %s" % (kind, name, " ".join(fl), o, pflag)
                viol.append({"id": vid, "what": msg, "input": {"grammar": g, "flags": fl, "o": o, "p": pflag}})
            if len(samples) < 6 and cases % 29 == 1:
                samples.append({"grammar": os.path.basename(g), "flags": fl, "o": o, "p_given": pflag})
    ded = []
    seen = set()
    for v in viol:
        if v["id"] not in seen:
            seen.add(v["id"])
            ded.append(v)
    return {"name": "MATRIX flag subsets x output dir x -p: status 0 means complete, compilable output (finite configuration space, bounded grammars)", "cases": cases, "evaluations": cases,
            "exhaustive_over_configurations": run.tier == "thorough", "violations": ded, "samples": samples}


def c09_spellings(run):
    """bounded: spellings of the output directory (trailing slash, ./, absolute) and of -p: status 0 must still mean compilable packages"""
    import expand, os, shutil, common as C
    gocc = expand.build_gocc(run)
    base = os.path.dirname(os.path.dirname(__file__))
    g = os.path.join(base, "carriers", "conflict.bnf")
    viol, cases, samples = [], 0, []
    jobs = []
    for fl in (["-a"], ["-a", "-zip"]):
        for o in (None, "sub/", "./sub", "./sub/dir/", "ABS/out", "ABS/out/"):
            for pv in (None, "P", "P/"):
                jobs.append((fl, o, pv))
    if run.tier == "quick":
        jobs = [j for j in jobs if j[0] == ["-a"]]

    def one(job):
        fl, o, pv = job
        d = os.path.join(run.work, "spell", "c%d" % abs(hash((tuple(fl), o, pv))))
        os.makedirs(d, exist_ok=True)
        open(os.path.join(d, "go.mod"), "w").write("module gen\n\ngo 1.24\n")
        shutil.copy(g, os.path.join(d, "g.bnf"))
        args = list(fl)
        rel = "."
        if o is not None:
            oo = o.replace("ABS", d + "/abs")
            args += ["-o", oo]
            rel = os.path.relpath(os.path.normpath(oo if os.path.isabs(oo) else os.path.join(d, oo)), d)
        if pv is not None:
            pkg = "gen" if rel == "." else "gen/" + rel
            args += ["-p", pv.replace("P", pkg)]
        rc, out = C.sh([gocc] + args + ["g.bnf"], cwd=d, timeout=60)
        msg = None
        if rc != 0:
            msg = ("status", "unexpected status %d: %s" % (rc, out[-300:]))
        else:
            rc2, out2 = C.sh(["go", "build", "./..."], cwd=d, timeout=300)
            if rc2 != 0:
                msg = ("compile", "status 0 but the packages do not compile: %s" % out2[-400:])
            elif not os.path.exists(os.path.join(d, rel, "errors", "errors.go")):
                msg = ("missing", "status 0 but errors/errors.go is not under the output directory")
        shutil.rmtree(d, ignore_errors=True)
        return job, msg

    from concurrent.futures import ThreadPoolExecutor
    with ThreadPoolExecutor(max_workers=8) as ex:
        for (fl, o, pv), msg in ex.map(one, jobs):
            cases += 1
            if msg and len(viol) < 8:
                viol.append({"id": "C09 spelling %s: flags=%s -o %s -p %s" % (msg[0], " ".join(fl), o, pv), "what": msg[1], "input": {"grammar": g, "flags": fl, "o": o, "p": pv}})
            if len(samples) < 6 and cases % 7 == 1:
                samples.append({"flags": fl, "o": o, "p": pv})
    return {"name": "SPELLINGS of -o / -p (trailing slash, ./, absolute): status 0 means compilable packages (bounded)", "cases": cases, "evaluations": cases, "violations": viol, "samples": samples}


def c09_truncations(run):
    """bounded: gocc terminates (any status) on every prefix of the corpus grammars cut at a byte offset, and on the
    ill-formed corpus; quick: every 3rd offset (rotating with the seed) of two grammars"""
    import expand, os, glob, shutil, common as C
    gocc = expand.build_gocc(run)
    base = os.path.dirname(os.path.dirname(__file__))
    files = [os.path.join(base, "corpus", "hostile.bnf"), os.path.join(base, "carriers", "recover.bnf")]
    if run.tier == "thorough":
        files += [os.path.join(base, "carriers", "conflict.bnf"), os.path.join(base, "corpus", "lex_nonascii.bnf")]
    jobs = []
    for f in files:
        data = open(f, "rb").read()
        step = 3 if run.tier == "quick" else 1
        for cut in range(run.seed % step, len(data), step):
            jobs.append((f, cut, data[:cut]))
    for f in sorted(glob.glob(os.path.join(base, "corpus", "illformed", "*.bnf"))):
        jobs.append((f, -1, open(f, "rb").read()))
    viol, cases = [], 0
    root = os.path.join(run.work, "trunc")
    os.makedirs(root, exist_ok=True)
    open(os.path.join(root, "go.mod"), "w").write("module gen\n\ngo 1.24\n")

    def one(job):
        f, cut, data = job
        d = os.path.join(root, "%s-%d" % (os.path.basename(f), cut))
        os.makedirs(d, exist_ok=True)
        open(os.path.join(d, "g.bnf"), "wb").write(data)
        try:
            rc, out = C.sh([gocc, "-a", "g.bnf"], cwd=d, timeout=30)
            res = None
        except Exception as ex:
            res = "gocc did not terminate within 30 s on the first %d bytes of %s" % (cut, os.path.basename(f))
        shutil.rmtree(d, ignore_errors=True)
        return job, res

    from concurrent.futures import ThreadPoolExecutor
    with ThreadPoolExecutor(max_workers=16) as ex:
        for (f, cut, data), res in ex.map(one, jobs):
            cases += 1
            if res and len(viol) < 6:
                viol.append({"id": "C09 truncation: gocc does not terminate on a prefix of %s" % os.path.basename(f), "what": res, "input": {"grammar_file": f, "cut": cut, "text": data.decode("utf-8", "replace")[-400:]}})
    return {"name": "TRUNCATIONS gocc terminates on every cut of the corpus grammars and on the ill-formed corpus (bounded)", "cases": cases, "evaluations": cases, "violations": viol,
            "samples": [{"grammar": os.path.basename(j[0]), "cut": j[1]} for j in jobs[:: max(1, len(jobs) // 5)]][:6]}


def c09_termination(run):
    """bounded: every gocc run of the LEX and SYN scopes terminates (timeouts are failures of kind timeout)"""
    rl = sweep_tool(run, "lexref", "tools/lexref")
    rs = sweep_tool(run, "lrref", "tools/lrref")
    viol = []
    for tool, r in (("lexref", rl), ("lrref", rs)):
        for x in r.get("fails") or []:
            if x["kind"] == "timeout":
                viol.append({"id": "%s timeout case %s" % (tool, x["id"]), "case_id": x["id"], "what": "gocc did not terminate within the limit", "input": {"grammar": x["grammar"], "tool": tool, "case": x["id"]}})
    return {"name": "TERMINATION of every gocc run of the LEX and SYN scopes (bounded)", "cases": rl["cases"] + rs["cases"], "evaluations": rl["cases"] + rs["cases"], "violations": viol,
            "samples": [{"lex_cases": rl["cases"], "syn_cases": rs["cases"], "timeouts": len(viol)}]}


PROPS["C09"] = {
    "level": "other",
    "govc": [{"dir": "{repo}", "pkgs": ["./internal/lexer/items"], "contracts": [ITEMS_CONTRACTS, AST_CONTRACTS], "prop": "C18"},
             {"dir": "{repo}", "pkgs": ["./internal/util/md"], "contracts": [STDLIB, MD_CONTRACTS], "prop": "C19"},
             {"dir": "{repo}", "pkgs": ["./internal/util"], "contracts": [STDLIB, UTIL_CONTRACTS], "prop": "C20"},
             {"dir": "{repo}", "pkgs": ["./internal/frontend/scanner"], "contracts": [STDLIB, "{repo}/internal/frontend/scanner/zz_contracts_verif.go"], "prop": "C09"}],
    "extra": [c09_matrix, c09_spellings, c09_termination, c09_truncations],
    "trusted_base": COMMON_TRUSTED + ["go build as the judge of 'the packages compile'"],
    "assumptions": [
        "termination is proved (decreases clauses, unwinding assertions) only for the loops of the functions under contract listed in this evidence: gocc's own scanner (every loop of internal/frontend/scanner has a variant; Scan, including its restart after a comment, consumes at least one character unless the input is exhausted), AddRange, insertRange, loadMd, escapeCharVal (and, under C01/C07/C08, the generated Scan, firstRecoveryState and the recovery skip loop); the LR loop of gocc's own Parse has no local variant (it depends on the tables); the fixed-point loops of the generator (FIRST sets, LR(1) closure/goto, lexer item closure) have no variant within reach: their termination is checked only on the bounded LEX and SYN scopes",
        "'status zero means every required file is written, import paths resolve, packages compile' is decided by running the built gocc over the flag/output-directory/-p configuration space on four grammars (quick: a deterministic sample of 24 configurations; thorough: all 384), not by a contract on main",
        "file header and action expressions are assumed to be valid Go, as the property states",
    ],
    "explanation": "Termination: gocc's own scanner is proved to terminate on every input (every loop of internal/frontend/scanner has a variant - the number of characters left, counting the look-ahead - and Scan, including its restart after a comment, consumes at least one character unless the input is exhausted; no index out of range); decreases obligations are discharged for the other loops under contract; every remaining loop of the generator (the LR loop of its own parser, the fixed points) is covered only by the bounded scopes: every gocc run of the LEX/SYN sweeps, of every cut of the corpus grammars and of the ill-formed corpus must finish. Complete, compilable output: finite configuration matrix executed with the real binary and go build, on grammars with hostile spellings. This property is mostly outside the reach of function contracts here; the level is 'other' and the split is stated.",
}


def c19_markdown(run):
    """bounded end-to-end: gocc on x.md behaves as on the text in which prose and fences are blanked rune for rune
    (independent Python blanking), for several splittings of each corpus grammar, file names with several dots,
    non-ASCII prose, and an injected illegal character whose reported position must be the one in the markdown file"""
    import expand, os, re, shutil, common as C
    gocc = expand.build_gocc(run)
    viol, cases, samples = [], 0, []

    def blank(md):
        out, text, i = [], True, 0
        while i < len(md):
            if md.startswith("```", i):
                text = not text
                out.append("   ")
                i += 3
                continue
            ch = md[i]
            out.append(ch if (not text or ch == "\n") else " ")
            i += 1
        return "".join(out)

    def run_one(name, content, d):
        os.makedirs(d, exist_ok=True)
        open(os.path.join(d, "go.mod"), "w").write("module gen\n\ngo 1.24\n")
        open(os.path.join(d, name), "w", encoding="utf-8").write(content)
        rc, o = C.sh([gocc, "-a", name], cwd=d, timeout=60)
        os.remove(os.path.join(d, name))
        o = re.sub(r"expected one of:.*", "expected one of: <set>", o)
        # the ORDER of independent warnings follows a map iteration in ast.consistent and is not part of C19 (nor of C11,
        # which is about packages, status and conflict count): diagnostics are compared as a multiset of lines
        o = "\n".join(sorted(o.split("\n")))
        return rc, o, tree_digest(d)

    prose = ["# Grammar — naïve café “quoted” prose\n", "Some *text* with ünïcode and a tab\there.\n", "\n"]
    for g in corpus_grammars(run):
        if "illformed" in g or g.endswith("t2.bnf"):
            continue
        src = open(g, encoding="utf-8").read()
        if "```" in src:
            continue
        lines = src.split("\n")
        n = len(lines)
        variants = []
        for k, cuts in enumerate(([n // 2], [n // 3, 2 * n // 3], [1, n // 2, n - 1])):
            parts, last = [], 0
            for c in cuts + [n]:
                parts.append("\n".join(lines[last:c]))
                last = c
            md = prose[0]
            for j, part in enumerate(parts):
                md += "```\n" + part + "\n```\n" + prose[(j + 1) % 3]
            variants.append(("split%d" % k, md, ["g.md", "g.v1.md", "g.bnf.md"][k]))
        # inline fence after non-ASCII prose, and an injected illegal character inside code
        bad = lines[:]
        if n > 2:
            bad[n // 2] = bad[n // 2] + " #"
        md = "Préface ünï ```" + "\n".join(bad[: n // 2 + 1]) + "``` suite\n```\n" + "\n".join(bad[n // 2 + 1:]) + "\n```\n"
        variants.append(("diagnostic", md, "g.md"))
        for vname, md, fname in variants:
            cases += 1
            d1 = os.path.join(run.work, "md", "%s-%s-md" % (os.path.basename(g), vname))
            d2 = os.path.join(run.work, "md", "%s-%s-ref" % (os.path.basename(g), vname))
            r1 = run_one(fname, md, d1)
            r2 = run_one("g.bnf", blank(md), d2)
            shutil.rmtree(d1, ignore_errors=True)
            shutil.rmtree(d2, ignore_errors=True)
            if r1 != r2 and len(viol) < 8:
                viol.append({"id": "markdown input differs from its blanked text: %s %s" % (os.path.basename(g), vname), "what": "status/diagnostic/digest %s for %s vs %s for the blanked text" % ((r1[0], r1[1][-200:], r1[2][:12]), fname, (r2[0], r2[1][-200:], r2[2][:12])),
                             "input": {"grammar": g, "variant": vname, "file_name": fname, "markdown": md[:3000]}})
            if len(samples) < 5 and cases % 7 == 1:
                samples.append({"grammar": os.path.basename(g), "variant": vname, "file_name": fname, "status": r1[0]})
    return {"name": "MARKDOWN x.md vs rune-wise blanked text: same status, diagnostics and packages (bounded corpus)", "cases": cases, "evaluations": cases, "violations": viol, "samples": samples}


PROPS["C19"]["govc"].append({"dir": "{repo}", "pkgs": ["."], "contracts": [STDLIB, MAIN_CONTRACTS], "prop": "C19"})
PROPS["C19"]["extra"] = [c19_markdown]
PROPS["C19"]["assumptions"] += [
    "os.ReadFile, strings.HasSuffix, config.Config.SourceFile: trusted contracts; []rune(s)/[]byte(s) are modelled by an uninterpreted 'decodes' relation",
    "the markdown run is a bounded end-to-end cross-check (and the search space for failing inputs), not counted as proof",
]
PROPS["C19"]["explanation"] += " GetSource is proved to hand loadMd the RUNE decoding of the file (not its bytes); main.getSource is proved to dispatch on the .md suffix of the whole file name and to end with a non-zero status on a read error."


def parse_syntax_part(text):
    """productions of the syntax part of a carrier grammar: [(head, [symbols], action or None)] (own small reader)"""
    import re
    text = re.sub(r"/\*.*?\*/", " ", text, flags=re.S)
    toks = re.findall(r'<<.*?>>|"(?:[^"\\]|\\.)*"|`[^`]*`|\'(?:[^\'\\]|\\.)+\'|[A-Za-z_!][A-Za-z_0-9]*|[:;|\[\]{}().\-]', text, flags=re.S)
    prods, i = [], 0
    while i < len(toks):
        head = toks[i]
        if i + 1 >= len(toks) or toks[i + 1] != ":":
            i += 1
            continue
        j = i + 2
        alts, cur, act = [], [], None
        while j < len(toks) and toks[j] != ";":
            t = toks[j]
            if t == "|":
                alts.append((cur, act))
                cur, act = [], None
            elif t.startswith("<<"):
                act = t[2:-2]
            else:
                cur.append(t)
            j += 1
        alts.append((cur, act))
        if head[0].isupper():
            for body, a in alts:
                prods.append((head, body, a))
        i = j + 1
    return prods


def spec_sdt(s):
    import re
    def rep(m):
        g = m.group(0)
        if g.startswith("$T"):
            return "X[%s].(*token.Token)" % g[2:]
        if g == "$Context":
            return "C"
        return "X[%s]" % g[1:]
    return re.sub(r"\$(?:[0-9]+|T[0-9]+|Context)", rep, s).strip()


def c03_reducefuncs(run):
    """GROUND per carrier: the ReduceFunc bodies emitted in productionstable.go are the action expressions of the
    grammar after $-rewriting, 'X[0], nil' for an alternative without action, 'nil, nil' for an empty one"""
    import os, re
    viol, cases, samples = [], 0, []
    base = os.path.dirname(os.path.dirname(__file__))
    for c, g in (("recover", "recover.bnf"), ("conflict", "conflict.bnf")):
        prods = parse_syntax_part(open(os.path.join(base, "carriers", g)).read())
        exp = ["X[0], nil"]  # S' : first production
        nums = [1]
        for head, body, act in prods:
            if act is not None and act.strip():
                exp.append(spec_sdt(act))
            elif body == ["empty"]:
                exp.append("nil, nil")
            else:
                exp.append("X[0], nil")
            nums.append(0 if body == ["empty"] else len(body))
        src = open(os.path.join(run.carriers[c], "parser", "productionstable.go")).read()
        got = [m.strip() for m in re.findall(r"ReduceFunc: func\(X \[\]Attrib, C interface\{\}\) \(Attrib, error\) \{\s*return (.*?)\n\s*\},", src, flags=re.S)]
        gotn = [int(x) for x in re.findall(r"NumSymbols: (\d+),", src)]
        cases += len(exp)
        if len(got) != len(exp):
            viol.append({"id": "reduce functions of carrier %s: %d emitted, %d productions" % (c, len(got), len(exp)), "what": "count mismatch", "input": {"carrier": c}})
            continue
        for i, (a, b) in enumerate(zip(got, exp)):
            if re.sub(r"\s+", " ", a) != re.sub(r"\s+", " ", b) and len(viol) < 6:
                viol.append({"id": "reduce function %d of carrier %s" % (i, c), "what": "emitted %r, the grammar's action gives %r" % (a, b), "input": {"carrier": c, "production": i}})
            if gotn[i] != nums[i] and len(viol) < 6:
                viol.append({"id": "NumSymbols of production %d of carrier %s" % (i, c), "what": "emitted %d, want %d" % (gotn[i], nums[i]), "input": {"carrier": c, "production": i}})
        samples.append({"carrier": c, "productions": len(exp), "example": {"emitted": got[2] if len(got) > 2 else None, "expected": exp[2] if len(exp) > 2 else None}})
    return {"name": "GROUND emitted ReduceFuncs = rewritten action text / defaults (carriers)", "cases": cases, "evaluations": cases, "violations": viol, "samples": samples}


PROPS["C03"]["extra"].append(c03_reducefuncs)
PROPS["C03"]["bounded"].append({
    "name": "ACT", "stands_in_for": ["token.(*Token).SDTVal"],
    "overlay": {"{repo}/internal/frontend/token/verif_sdt_test.go": "harness/sdt/verif_sdt_test.go"},
    "pkg": "./internal/frontend/token", "run": "TestVerifSDT",
    "env": {"VERIF_SDT": {"quick": "enum:5", "thorough": "enum:7"}}, "replay_env": "VERIF_SDT",
})
PROPS["C03"]["assumptions"] = PARSE_ASSUME + ["SDTVal uses regexp (outside the engine's subset): decided by the bounded ACT scope (all action texts of up to 5 (7) items over $ 0 1 9 T C x Context .Lit and blank) against an independent rewriting; the emitted ReduceFunc bodies and NumSymbols are compared with the carriers' grammars (ground)"]


def lexref_corpus(run):
    """the emitted DFA of the hand-written lexical corpus grammars (corpus/lex_*.bnf) against the reference automaton"""
    import common as C, expand, glob, json, os
    gocc = expand.build_gocc(run)
    exe = C.ensure_tool("lexref", "tools/lexref")
    viol, cases, samples = [], 0, []
    for g in sorted(glob.glob(os.path.join(C.VERIF, "corpus", "lex_*.bnf"))):
        rc, o = C.sh([exe, "check", "-gocc", gocc, g], cwd=run.work, env=dict(C.GOENV, TMPDIR=run.work), timeout=300)
        cases += 1
        try:
            r = json.loads(o[o.index("{"):])
        except Exception:
            raise C.EngineError("lexref check failed on %s:\n%s" % (g, o[-1500:]))
        for x in r.get("fails") or []:
            viol.append({"id": "lexref corpus %s: %s" % (os.path.basename(g), x.get("kind")), "what": x.get("msg"), "input": {"grammar_file": g, "witness_input_hex": x.get("witness_input_hex")}})
        samples.append({"grammar": os.path.basename(g), "fails": len(r.get("fails") or [])})
    return {"name": "LEX corpus: hand-written lexical grammars vs the reference automaton (all inputs)", "cases": cases, "evaluations": cases, "violations": viol, "samples": samples}


PROPS["C01"]["extra"].append(lexref_corpus)
# C10: the parser's table columns are the token numbers - also beyond 255 and through the -zip encoding
PROPS["C10"]["extra"].append(c12_zip_tables)


FEPARSER_CONTRACTS = "{repo}/internal/frontend/parser/zz_contracts_verif.go"
_fe = {"dir": "{repo}", "pkgs": ["./internal/frontend/parser"], "contracts": [STDLIB, FEPARSER_CONTRACTS]}
PROPS["C14"]["govc"] = [dict(_fe, prop="C14"), {"dir": "{repo}", "pkgs": ["./internal/ast"], "contracts": ["{repo}/internal/ast/zz_contracts_verif.go"], "prop": "C14"}]
PROPS["C14"]["assumptions"] += [
    "front-end parser contracts: proved under FWF (rows present, stored actions in range) and FNoRecovery (no row of the checked-in tables is a recovery state: established on tables.go by lrref under C15) plus the viable-stack schemata for the front-end tables; Scanner.Scan, TokenMap.TokenString/Type, Position.String, error.Error, errors.New are trusted",
    "LexProdMap.Add is proved to panic exactly when a lexical production id is defined twice (in the map already or earlier in the same call); main's exit policy (Parse error or scanner errors -> status 1) has no contract: the ill-formed corpus and the SEMMUT family decide it (bounded)",
    "NewGrammar is proved to return consistent's verdict on the augmented grammar (error exactly when the augmented grammar has an empty alternative or uses an undefined production name), for a nil or non-nil lexical part; SyntaxPart.augment is trusted (append(a, b...) is outside the subset): it prepends S' : <name of the first production> and keeps the other productions. NewLexPart / NewLexProdMap are proved to panic exactly when two lexical productions (of any kind) share a name and otherwise to return the lexical part without error with every token definition in TokDefsList; the three per-kind duplicate tests of NewLexPart are proved to be dead code (allow_unreachable)",
    "ast.consistent is proved to return a non-nil error exactly when some alternative has no symbols or some symbol that is not a string literal, not defined as token or production, not empty/error, and starts with an upper-case letter is used in a production body (all five loops, three of them over maps, any iteration order). Trusted there: unicode.IsUpper and utf8.DecodeRuneInString are functions of their argument; fmt.Errorf returns a non-nil error; SyntaxStringLit.String renders a text that starts with a double quote (fmt.Sprintf); the package variable errUndefined is initialised (non-nil); symbol texts are non-empty (the scanner never yields an empty identifier)",
]
PROPS["C14"]["explanation"] = "Deductive part (govc on internal/frontend/parser, for arbitrary well-formed tables without recovery states and arbitrary token streams): Error never recovers - it discards nothing, pushes nothing, scans nothing; Parse never panics, executes one LR step per iteration, scans a token only in a shift step, and ends with an error the first time the current token has no action. So an accepted input was consumed token by token by the validated automaton (C15) - nothing is skipped or repaired. Bounded part: token-mutation run of the real parser on the corpus (every scanned token consumed, no phantom error symbol, reuse) and the ill-formed corpus (semantic checks, lexical errors, exit status)."
PROPS["C15"]["govc"] = [dict(_fe, prop="C15")]
PROPS["C15"]["bounded"] = PROPS["C14"]["bounded"]
PROPS["C15"]["trusted_base"] = PROPS["C15"]["trusted_base"] + COMMON_TRUSTED


FIRST_CONTRACTS = "{repo}/internal/parser/first/zz_contracts_verif.go"
_first_govc = {"dir": "{repo}", "pkgs": ["./internal/parser/first", "./internal/ast"], "contracts": [FIRST_CONTRACTS, "{repo}/internal/ast/zz_contracts_verif.go"]}
_first_bounded = {
    "name": "FIRSTS", "stands_in_for": ["first.FirstS", "first.First", "first.(SymbolSet).AddSet", "first.(*FirstSets).GetSet"],
    "overlay": {"{repo}/internal/parser/first/verif_first_test.go": "harness/first/verif_first_test.go"},
    "pkg": "./internal/parser/first", "run": "TestVerifFirstS", "env": {"VERIF_FIRST": "enum"}, "replay_env": "VERIF_FIRST",
}
for _p in ("C02", "C04", "C06"):
    PROPS[_p]["govc"] = PROPS[_p]["govc"] + [dict(_first_govc, prop=_p)]
    PROPS[_p]["bounded"] = PROPS[_p].get("bounded", []) + [dict(_first_bounded)]
    PROPS[_p]["explanation"] += " Generator side, proved for all FIRST tables and symbol strings: FirstS is the union of FIRST of the symbols up to and including the first non-nullable one and contains the marker 'empty' exactly when every symbol is nullable (First, SymbolSet.AddSet, FirstSets.GetSet under contract); GetFirstSets returns sets that are closed under the three rules of its iteration (the loop stops only when no production can add anything: invariant 'a change was recorded or every production seen so far is closed', AddToken/AddSet report exactly whether they changed anything); ItemSet.Closure returns a set that contains its argument and is closed under the LR(1) closure rule (for every item [A -> x . B y, a], production B -> z and terminal b in FIRST(y a), the item [B -> . z, b] is present; AddItem, first1, Contain, NewItemSet under contract, NewItem trusted for its rendered key), Goto returns the closed set that holds every item with the dot moved over X; GetItemSets returns an automaton whose states are all closed and in which every state has, for every symbol over which one of its items can move the dot, a transition to a state holding all those moved items (state identification by ItemSet.Equal, with the pigeonhole principle for finite sets as a trusted schema). The goto table builders (getGotoRowData, getGotoTableData) hand the template, for every state and nonterminal in numbering order, exactly the automaton's transition (-1 where there is none). That nothing unjustified is ever added (least fixed points), the action rows' texts and the template rendering are decided by the bounded SYN sweep only."


# generator side of C03: the production table (pops, default actions)
PROPS["C03"]["govc"] = PROPS["C03"]["govc"] + gen_govc("C03")[2:3]
PROPS["C03"]["explanation"] += " Generator side: getProdsTab is proved to give every production, in grammar order, the number of symbols the reduce step pops (0 for an `empty` body, the body length otherwise), the nonterminal number of its head, and - where the grammar gives no action - the default action (the first attribute, nil for an empty body); the rewriting of an explicit action text is the bounded ACT scope."
# generator side of C02: the LR(1) closure and goto (contracts in lr1/items)
PROPS["C02"]["govc"] = PROPS["C02"]["govc"] + gen_govc("C02")[:1] + gen_govc("C02")[2:3]


def c10_numbering(run):
    """GROUND on emitted packages of the corpus: typeMap[0] = INVALID, typeMap[1] = end of input, typeMap duplicate free, idMap[typeMap[i]] = i, equal sizes"""
    import expand, os, re, glob
    gocc = expand.build_gocc(run)
    base = os.path.dirname(os.path.dirname(__file__))
    viol, cases, samples = [], 0, []
    gs = corpus_grammars(run) + sorted(glob.glob(os.path.join(base, "corpus", "reserved_*.bnf")))
    for g in gs:
      if "illformed" in g or g.endswith("t2.bnf"):
        continue
      seen_maps = {}
      for fl in (["-a"], ["-a", "-v"]):
        d = os.path.join(run.work, "numbering", os.path.basename(g) + "".join(fl))
        rc, o = run_gocc(run, gocc, g, fl, d)
        if rc != 0:
            continue
        src = open(os.path.join(d, "token", "token.go"), encoding="utf-8").read()
        tm = re.search(r"typeMap: \[\]string\{(.*?)\n\t\},", src, re.S)
        im = re.search(r"idMap: map\[string\]Type\{(.*?)\n\t\},", src, re.S)
        if not tm or not im:
            viol.append({"id": "C10 numbering: token.go of %s has no typeMap/idMap literal" % os.path.basename(g), "what": "unexpected shape", "input": {"grammar": g}})
            continue
        import json as _json
        def unq(x):
            x = x.strip()
            try:
                return _json.loads(x)
            except Exception:
                return x
        names = [unq(l.strip()[:-1]) for l in tm.group(1).split("\n") if l.strip().endswith(",") and l.strip().startswith('"')]
        ids = {}
        for l in im.group(1).split("\n"):
            l = l.strip()
            if l.startswith('"') and l.endswith(",") and ":" in l:
                k, v = l[:-1].rsplit(":", 1)
                ids[unq(k)] = int(v)
        cases += 1
        name = os.path.basename(g)[:-4] + (" (-v)" if "-v" in fl else "")
        problems = []
        if names[:2] != ["INVALID", "\u241a"]:
            problems.append("typeMap starts with %r" % names[:2])
        if len(set(names)) != len(names):
            problems.append("duplicate names in typeMap")
        if len(ids) != len(names) or any(ids.get(n) != i for i, n in enumerate(names)):
            problems.append("idMap is not the inverse of typeMap")
        # the lexer's token numbers must be numbers of the token package
        at = os.path.join(d, "lexer", "acttab.go")
        if os.path.exists(at):
            used = set(int(m) for m in re.findall(r"Accept:\s*(-?\d+)", open(at, encoding="utf-8").read()))
            bad = sorted(u for u in used if u >= len(names))
            if bad:
                problems.append("the lexer emits token numbers %s beyond the token package's %d types" % (bad[:5], len(names)))
        seen_maps["".join(fl)] = names
        if problems:
            viol.append({"id": "C10 numbering: %s" % name, "what": "; ".join(problems), "input": {"grammar": g, "flags": fl, "typeMap": names[:6]}})
        if len(samples) < 5:
            samples.append({"grammar": name, "terminals": len(names)})
      if len(seen_maps) == 2 and seen_maps["-a"] != seen_maps["-a-v"]:
        viol.append({"id": "C10 numbering: %s: -v changes the token numbering" % os.path.basename(g)[:-4], "what": "typeMap without -v %s..., with -v %s..." % (seen_maps["-a"][:12], seen_maps["-a-v"][:12]), "input": {"grammar": g, "flags": ["-a", "-v"]}})
    return {"name": "GROUND token numbering literals of the corpus grammars", "cases": cases, "evaluations": cases, "violations": viol, "samples": samples}


PROPS["C10"].setdefault("extra", []).append(c10_numbering)


def c17_race(run):
    """bounded: 16 goroutines with their own objects under the race detector (scheduler-chosen interleavings only)"""
    import common as C, json, os, shutil
    viol, cases, samples = [], 0, []
    for c in ("recover", "recover_zip"):
        d = run.carriers[c]
        shutil.copy(os.path.join(C.VERIF, "harness/conc/verif_conc_test.go"), os.path.join(d, "verif_conc_test.go"))
        out = os.path.join(run.work, "conc-%s.json" % c)
        rc, o = C.sh(["go", "test", "-race", "-vet=off", "-count=1", "-run", "TestVerifConc", "."], cwd=d, env=dict(C.GOENV, VERIF_OUT=out, VERIF_CONC="1"), timeout=900)
        os.remove(os.path.join(d, "verif_conc_test.go"))
        if "DATA RACE" in o:
            viol.append({"id": "C17 data race reported by the race detector (%s)" % c, "what": o[o.index("DATA RACE") - 20:][:1500], "input": {"carrier": c}})
        if os.path.exists(out):
            r = json.load(open(out))
            cases += r["cases"]
            for f in r.get("fails") or []:
                viol.append({"id": "C17 concurrent result differs (%s)" % c, "what": f, "input": {"carrier": c, "case": f}})
        elif "DATA RACE" not in o:
            if "[build failed]" in o:
                raise C.EngineError("conc harness does not build:\n" + o[-1500:])
            viol.append({"id": "C17 concurrent run crashed (%s)" % c, "what": o[-1200:], "input": {"carrier": c}})
        samples.append({"carrier": c, "goroutines": 16, "rounds": 20})
    return {"name": "RACE 16 goroutines x own lexer/parser under go test -race (bounded; interleavings not explored)", "cases": cases, "evaluations": cases, "violations": viol[:6], "samples": samples}


PROPS["C17"]["extra"].append(c17_race)


def lrref_corpus(run):
    """hand-written grammars (corpus/syn_*.bnf: shapes outside the generated SYN scope, each found by reading the code
    against the property) through the same reference: canonical LR(1) tables, conflict report, exit status, language"""
    import common as C, json, os, glob, expand
    exe = C.ensure_tool("lrref", "tools/lrref")
    gocc = expand.build_gocc(run)
    viol, cases, samples = [], 0, []
    for g in sorted(glob.glob(os.path.join(C.VERIF, "corpus", "syn_*.bnf"))):
        for flags in ([], ["-a"]):
            rc, o = C.sh([exe, "check", "-gocc", gocc] + flags + ["-lang", g], cwd=run.work, timeout=600)
            try:
                r = json.loads(o[o.index("{"):])
            except Exception:
                raise C.EngineError("lrref check failed on %s (rc=%d):\n%s" % (g, rc, o[-1500:]))
            cases += 1
            samples.append({"grammar": os.path.basename(g), "flags": " ".join(flags), "ref_states": r.get("ref_states"), "conflict_states": r.get("conflict_states"), "language_checked": r.get("language_checked")})
            for x in (r.get("fails") or [])[:3]:
                viol.append({"id": "lrref check %s %s%s: %s" % (os.path.basename(g), x["kind"], " -a" if flags else "", x["id"]), "what": x.get("msg"), "kind": x["kind"],
                             "input": {"grammar_file": g, "grammar": open(g).read(), "flags": " ".join(flags), "tool": "lrref check"}})
    return {"name": "SYN corpus: hand-written grammars against the canonical LR(1) reference (bounded)", "cases": cases, "evaluations": cases, "violations": viol[:8], "samples": samples[:6], "label": "bounded - never counted as proved"}


for _p in ("C02", "C04"):
    PROPS[_p]["extra"].append(lrref_corpus)


def replay_tool_case(run, rp, path):
    """replays a violation found by one of the reference tools (lrref / lexref) on the grammar stored in the replay file"""
    import common as C, expand, json, os
    inp = rp.get("input")
    if not isinstance(inp, dict):
        return None
    text = inp.get("grammar")
    if text is None and inp.get("grammar_file") and os.path.exists(inp["grammar_file"]):
        text = open(inp["grammar_file"]).read()
    tool = inp.get("tool") or ("lexref" if "lexref" in str(rp.get("id", "")) else ("lrref" if "lrref" in str(rp.get("id", "")) else None))
    if text is None or tool is None:
        return None
    tool = "lexref" if tool.startswith("lexref") else "lrref"
    gocc = expand.build_gocc(run)
    exe = C.ensure_tool(tool, "tools/" + tool)
    g = os.path.join(run.work, "replay.bnf")
    open(g, "w").write(text)
    cmd = [exe, "check", "-gocc", gocc]
    if tool == "lrref":
        cmd += [f for f in (inp.get("flags") or "").split() if f == "-a"] + ["-lang"]
    rc, o = C.sh(cmd + [g], cwd=run.work, env=dict(C.GOENV, TMPDIR=run.work), timeout=600)
    try:
        r = json.loads(o[o.index("{"):])
    except Exception:
        raise C.EngineError("%s check failed (rc=%d):\n%s" % (tool, rc, o[-1500:]))
    fails = r.get("fails") or []
    if fails:
        run.say("replay reproduces on the real gocc: %s: %s" % (fails[0].get("kind"), str(fails[0].get("msg"))[:400]))
        run.say("VIOLATION property=%s replay=%s" % (run.prop, path))
        return 1
    run.say("replay does not reproduce on this tree (%s check reports no failure)" % tool)
    return 0


for _p in PROPS:
    PROPS[_p].setdefault("replayers", []).append(replay_tool_case)


def c14_semantic_mutations(run):
    """bounded, systematic over the corpus (the property's own quantifier): every single reference to a syntax production
    or regular definition renamed to an undefined name, every single lexical definition duplicated; each mutant must be
    rejected (non-zero status)"""
    import expand, os, shutil, respell, common as C
    from concurrent.futures import ThreadPoolExecutor
    gocc = expand.build_gocc(run)
    files = [g for g in corpus_grammars(run) if "illformed" not in g and not g.endswith("t2.bnf")]
    dump = respell.dump_tokens(run, files)
    jobs = []
    for g in files:
        info = dump.get(g)
        if not info or info.get("errors"):
            continue
        src = open(g, "rb").read()
        toks = info["tokens"]
        # a gocc grammar whose base run is not accepted is no base for mutation
        for i, t in enumerate(toks):
            lit = t["lit"].encode()
            o = t["offset"]
            if src[o:o + len(lit)] != lit:
                continue
            nxt = toks[i + 1]["lit"] if i + 1 < len(toks) else ""
            if t["type"] in ("prodId", "regDefId") and nxt != ":":
                if t["type"] == "prodId" and lit in (b"INVALID",):
                    continue
                news = [b"Zzundefined", "\u00c9zundefined".encode()] if t["type"] == "prodId" else [b"_zzundefined"]
                for new in news:
                    jobs.append((g, "reference %s at offset %d renamed to the undefined %s" % (t["lit"], o, new.decode()), src[:o] + new + src[o + len(lit):]))
            if t["type"] in ("tokId", "regDefId", "ignoredTokId") and nxt == ":":
                # the definition runs up to the next ';' token
                j = i + 1
                while j < len(toks) and toks[j]["lit"] != ";":
                    j += 1
                if j < len(toks):
                    end = toks[j]["offset"] + 1
                    jobs.append((g, "definition of %s at offset %d duplicated" % (t["lit"], o), src[:end] + b"\n" + src[o:end] + src[end:]))
    if run.tier == "quick":
        jobs = [j for k, j in enumerate(jobs) if k % 3 == run.seed % 3]
    viol, cases, samples = [], 0, []

    def one(job):
        g, desc, data = job
        d = os.path.join(run.work, "semmut", "m%d" % abs(hash((g, desc))))
        os.makedirs(d, exist_ok=True)
        p = os.path.join(d, "mutant.bnf")
        open(p, "wb").write(data)
        rc, o = run_gocc(run, gocc, p, ["-a"], d, timeout=60)
        shutil.rmtree(d, ignore_errors=True)
        return job, rc, o

    with ThreadPoolExecutor(max_workers=16) as ex:
        for (g, desc, data), rc, o in ex.map(one, jobs):
            cases += 1
            if rc == 0 and len(viol) < 10:
                viol.append({"id": "ill-formed mutant accepted: %s: %s" % (os.path.basename(g), desc), "what": "gocc exits with status 0", "input": {"grammar": data.decode("utf-8", "replace"), "base": g, "mutation": desc}})
            if len(samples) < 6 and cases % 41 == 1:
                samples.append({"grammar": os.path.basename(g), "mutation": desc, "status": rc})
    return {"name": "SEMMUT every reference renamed to an undefined name, every lexical definition duplicated: all rejected (bounded corpus)", "cases": cases, "evaluations": cases, "violations": viol, "samples": samples}


PROPS["C14"]["extra"].append(c14_semantic_mutations)
