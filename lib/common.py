import os, sys, json, subprocess, time, hashlib, shutil, tempfile, re, glob, uuid

VERIF = os.path.dirname(os.path.dirname(os.path.abspath(__file__)))
BIN = os.path.join(VERIF, "bin")
GOENV = dict(os.environ, GOFLAGS="-mod=mod", GOPROXY="off")
GOENV.pop("GOSUMDB", None)
GOENV.pop("GOTOOLCHAIN", None)


class EngineError(Exception):
    pass


def sh(cmd, cwd=None, env=None, timeout=None, check=False, input=None):
    p = subprocess.run(cmd, cwd=cwd, env=env or GOENV, stdout=subprocess.PIPE, stderr=subprocess.STDOUT, text=True, timeout=timeout, input=input)
    if check and p.returncode != 0:
        raise EngineError("command failed (%d): %s\n%s" % (p.returncode, " ".join(cmd), p.stdout[-3000:]))
    return p.returncode, p.stdout


def newest_mtime(paths):
    m = 0
    for p in paths:
        for f in glob.glob(p):
            m = max(m, os.path.getmtime(f))
    return m


def ensure_tool(name, srcdir):
    """Build /verif/bin/<name> from /verif/<srcdir> when missing or stale."""
    out = os.path.join(BIN, name)
    src = os.path.join(VERIF, srcdir)
    if os.path.exists(out) and os.path.getmtime(out) >= newest_mtime([src + "/*.go", src + "/go.mod"]):
        return out
    os.makedirs(BIN, exist_ok=True)
    rc, o = sh(["go", "build", "-o", out, "."], cwd=src)
    if rc != 0:
        raise EngineError("building %s failed:\n%s" % (name, o[-3000:]))
    return out


def load_known():
    p = os.path.join(VERIF, "KNOWN_FINDINGS.json")
    if not os.path.exists(p):
        return {"findings": [], "fixed": []}
    return json.load(open(p))


class Run:
    def __init__(self, prop, tier, seed, repo, cfg):
        self.prop, self.tier, self.seed, self.repo, self.cfg = prop, tier, seed, repo, cfg
        self.t0 = time.time()
        self.work = tempfile.mkdtemp(prefix="verif-%s-" % prop)
        self.known = [f for f in load_known()["findings"] if f["property"] == prop]
        self.lines = []
        self.assumptions = list(cfg.get("assumptions", []))
        self.expanded = None

    def __del__(self):
        shutil.rmtree(self.work, ignore_errors=True)

    def say(self, s):
        print(s, flush=True)

    def subst(self, s):
        return s.replace("{repo}", self.repo).replace("{verif}", VERIF).replace("{work}", self.work).replace("{gen}", self.expanded or "")

    # ---------------------------------------------------------------- govc
    def run_govc(self, spec, extra=None, jobs=None):
        govc = ensure_tool("govc", "govc")
        out = os.path.join(self.work, "govc-%s.json" % uuid.uuid4().hex[:8])
        timeout = spec.get("timeout", {"quick": 10, "thorough": 60})[self.tier]
        cmd = [govc, "-dir", self.subst(spec["dir"]), "-pkgs", ",".join(spec["pkgs"]),
               "-contracts", ",".join(self.subst(c) for c in spec["contracts"]), "-out", out, "-timeout", str(timeout)]
        if spec.get("funcs"):
            cmd += ["-funcs", spec["funcs"]]
        if spec.get("tags"):
            cmd += ["-tags", spec["tags"]]
        cmd += extra or []
        # result cache keyed on the exact inputs (govc binary, contract files, every Go file of the loaded module dir)
        key = self.govc_cache_key(govc, spec, cmd)
        cpath = os.path.join(VERIF, ".cache", "govc", key + ".json")
        if os.path.exists(cpath) and not os.environ.get("VERIF_NO_CACHE"):
            rep = json.load(open(cpath))
            rep["cached"] = True
            return self.filter_prop(rep, spec.get("prop"))
        rc, o = sh(cmd + (["-j", str(jobs)] if jobs else []), cwd=self.subst(spec["dir"]), timeout=3600)
        if rc == 2 or not os.path.exists(out):
            raise EngineError("govc failed:\n" + o[-4000:])
        rep = json.load(open(out))
        rep["cmd"] = " ".join(cmd)
        rep["console"] = o
        # only a completely successful run is worth remembering: an undischarged obligation may be an effect of the
        # moment (a wall-clock safety limit under load) and must be recomputed next time
        clean = all(f["status"] == "verified" for f in rep.get("functions") or []) and all(
            o["status"] == "discharged" or o["expect"] == "sat" for o in rep.get("obligations") or [])
        if clean:
            os.makedirs(os.path.dirname(cpath), exist_ok=True)
            json.dump(rep, open(cpath, "w"))
        return self.filter_prop(rep, spec.get("prop"))

    def filter_prop(self, rep, prop):
        """All functions under contract in the loaded packages are verified in one govc run (shared between the
        properties that cite them); a check keeps the functions whose contract lists its property."""
        if not prop:
            return rep
        keep = set(f["func"] for f in rep.get("functions") or [] if prop in (f.get("props") or []))
        rep = dict(rep)
        rep["functions"] = [f for f in rep.get("functions") or [] if f["func"] in keep]
        rep["obligations"] = [o for o in rep.get("obligations") or [] if o["func"] in keep]
        rep["solver_s"] = sum(o.get("secs", 0) for o in rep["obligations"])
        by = {}
        for o in rep["obligations"]:
            if o["status"] == "discharged":
                by[o.get("solver")] = by.get(o.get("solver"), 0) + 1
        rep["discharged_by_solver"] = by
        return rep

    def govc_cache_key(self, govc, spec, cmd):
        """hash of everything a govc run reads: the govc binary, its arguments, the contract files and every Go file of the
        loaded packages and of the packages of the same module they import (go list -deps). Paths are made relative to the
        repository / work directory, so that a scratch copy of the repository with the same contents shares the results."""
        h = hashlib.sha256()
        h.update(open(govc, "rb").read())
        d = self.subst(spec["dir"])

        def norm(a):
            return a.replace(self.work, "{work}").replace(self.repo, "{repo}")
        args = [norm(a) for a in cmd if not a.endswith(".json")]
        h.update(" ".join(args).encode())
        for c in spec["contracts"]:
            h.update(open(self.subst(c), "rb").read())
        files = []
        dirs = None
        try:
            rc, o = sh(["go", "list", "-deps", "-tags", "verif", "-f", "{{.Dir}}"] + list(spec["pkgs"]), cwd=d, timeout=300)
            if rc == 0:
                dirs = [l.strip() for l in o.split("\n") if l.strip().startswith(d.rstrip("/") + "/") or l.strip() == d.rstrip("/")]
        except Exception:
            dirs = None
        if dirs:
            for dp in dirs:
                for f in os.listdir(dp):
                    if f.endswith(".go") and not f.endswith("_test.go"):
                        files.append(os.path.join(dp, f))
            files.append(os.path.join(d, "go.mod"))
        else:
            # fallback: everything below the module directory
            for dp, dn, fn in os.walk(d):
                if "/.git" in dp or "/example" in dp:
                    continue
                for f in fn:
                    if f.endswith(".go") or f == "go.mod":
                        files.append(os.path.join(dp, f))
        for f in sorted(set(files)):
            if not os.path.exists(f):
                continue
            h.update(norm(f).encode())
            h.update(open(f, "rb").read())
        return h.hexdigest()[:24]

    # ---------------------------------------------------------------- bounded stand-ins through the real code
    def run_gen_test(self, spec, env_extra, timeout=900):
        """bounded stand-in on generated code: copy a test file into a package of an expanded carrier and run it there"""
        d = self.subst(spec["gen_dir"])
        for src, dst in spec["copy"].items():
            shutil.copy(os.path.join(VERIF, src), os.path.join(d, dst))
        outp = os.path.join(self.work, "bounded-%d.json" % len(os.listdir(self.work)))
        env = dict(GOENV, VERIF_OUT=outp, VERIF_SEED=str(self.seed))
        env.update(env_extra)
        cmd = ["go", "test", "-vet=off", "-count=1", "-timeout", "%ds" % timeout, "-run", spec["run"], spec["pkg"]]
        rc, o = sh(cmd, cwd=d, env=env, timeout=timeout + 60)
        if not os.path.exists(outp):
            if "[build failed]" in o or "cannot find" in o or "no Go files" in o:
                raise EngineError("bounded harness did not build:\n" + o[-3000:])
            return {"cases": 0, "fails": ["harness crashed: " + o[-1500:]], "cmd": " ".join(cmd)}
        r = json.load(open(outp))
        r["cmd"] = "(in expanded carrier %s) " % os.path.basename(d) + " ".join(cmd)
        r["fails"] = r.get("fails") or []
        return r

    def run_bounded(self, spec, envx, **kw):
        if "gen_dir" in spec:
            return self.run_gen_test(spec, envx, **kw)
        return self.run_overlay_test(spec, envx, **kw)

    def run_overlay_test(self, spec, env_extra, timeout=900, repo=None):
        repo = repo or self.repo
        ov = {"Replace": {self.subst(k).replace(self.repo, repo): os.path.join(VERIF, v) for k, v in spec["overlay"].items()}}
        ovp = os.path.join(self.work, "overlay-%d.json" % len(os.listdir(self.work)))
        json.dump(ov, open(ovp, "w"))
        outp = os.path.join(self.work, "bounded-%d.json" % len(os.listdir(self.work)))
        env = dict(GOENV, VERIF_OUT=outp, VERIF_SEED=str(self.seed))
        env.update(env_extra)
        cmd = ["go", "test", "-overlay", ovp, "-vet=off", "-count=1", "-timeout", "%ds" % timeout, "-run", spec["run"], spec["pkg"]]
        rc, o = sh(cmd, cwd=repo, env=env, timeout=timeout + 60)
        if not os.path.exists(outp):
            # a crash of the real code under test is a finding of the bounded check, a build failure is an engine error
            if "[build failed]" in o or "cannot find" in o or "no Go files" in o:
                raise EngineError("bounded harness did not build:\n" + o[-3000:])
            return {"cases": 0, "fails": ["harness crashed: " + o[-1500:]], "cmd": " ".join(cmd)}
        r = json.load(open(outp))
        r["cmd"] = " ".join(cmd)
        r["fails"] = r.get("fails") or []
        return r

    # ---------------------------------------------------------------- main check
    def check(self, record_baseline=False):
        cfg = self.cfg
        if cfg.get("prepare"):
            cfg["prepare"](self)
        funcs, obls, cmds, trusted, unused = [], [], [], [], []
        solver_s = 0.0
        by_solver = {}
        self.phases = []
        specs = cfg.get("govc", [])
        # the govc runs of a property are independent processes: up to three at a time, sharing the cores
        def _one(spec):
            tp = time.time()
            rep = self.run_govc(spec, jobs=(8 if len(specs) > 1 else None))
            return spec, rep, time.time() - tp
        from concurrent.futures import ThreadPoolExecutor
        with ThreadPoolExecutor(max_workers=3) as ex:
            results = list(ex.map(_one, specs))
        for spec, rep, secs in results:
            tp = time.time() - secs
            self.phases.append({"phase": "govc " + ",".join(spec.get("pkgs", [])) + " in " + os.path.basename(self.subst(spec.get("dir", ""))), "secs": round(time.time() - tp, 1), "cached": bool(rep.get("cached"))})
            cmds.append(rep["cmd"])
            funcs += rep.get("functions") or []
            obls += rep.get("obligations") or []
            trusted += rep.get("trusted_contracts") or []
            unused += rep.get("contracts_without_function") or []
            solver_s += rep.get("solver_s", 0)
            for k, v in (rep.get("discharged_by_solver") or {}).items():
                by_solver[k] = by_solver.get(k, 0) + v
        bounded = []
        for spec in cfg.get("bounded", []):
            envx = {k: (v[self.tier] if isinstance(v, dict) else (v(self) if callable(v) else v)) for k, v in spec.get("env", {}).items()}
            tp = time.time()
            r = self.run_bounded(spec, envx)
            self.phases.append({"phase": "bounded " + spec["name"], "secs": round(time.time() - tp, 1)})
            r["name"] = spec["name"]
            r["scope"] = envx
            r["stands_in_for"] = spec.get("stands_in_for", [])
            bounded.append(r)
        extra = []
        for fn in cfg.get("extra", []):
            tp = time.time()
            extra.append(fn(self))
            self.phases.append({"phase": "extra " + fn.__name__, "secs": round(time.time() - tp, 1)})

        basep = os.path.join(VERIF, "baseline", self.prop + ".json")
        if record_baseline:
            os.makedirs(os.path.dirname(basep), exist_ok=True)
            base = {"functions": {f["func"]: {"status": f["status"], "notes": f.get("notes", [])} for f in funcs},
                    "obligations": sorted(set(o["name"] for o in obls if o["expect"] == "unsat"))}
            json.dump(base, open(basep, "w"), indent=1, sort_keys=True)
            self.say("baseline recorded: %s" % basep)
        base = json.load(open(basep)) if os.path.exists(basep) else {"functions": {}, "obligations": []}

        violations = []   # (title, replay dict)
        degraded = []
        known_hit = []
        bounded_fail_inputs = []
        for b in bounded:
            for f in b["fails"]:
                kf = self.match_known(case=f)
                if kf:
                    known_hit.append(kf)
                else:
                    bounded_fail_inputs.append((b, f))
        # contracts whose function disappeared
        present = set(f["func"] for f in funcs)
        for k in sorted(set(unused)):
            # (a contract file may be loaded by several govc runs of one check; the function counts as missing only if
            # none of them found it)
            if k in base["functions"] and k not in present:
                degraded.append("contract for %s no longer matches a function (renamed or removed): decided by the bounded stand-in only" % k)
        for f in funcs:
            key = f["func"]
            b = base["functions"].get(key)
            fobl = [o for o in obls if o["func"] == key]
            bad = [o for o in fobl if (o["expect"] == "unsat" and o["status"] != "discharged") or o["status"] == "vacuous-path"]
            if f["status"] in ("out-of-subset", "stale"):
                msg = "%s is %s (%s)" % (key, f["status"], f.get("reason", ""))
                degraded.append(msg + ": decided by the bounded stand-in only")
                continue
            newnotes = [n for n in f.get("notes", []) if "without contract" in n and (not b or n not in b.get("notes", []))]
            if not bad:
                continue
            byname = {}
            for o in bad:
                byname.setdefault(o["name"], []).append(o)
            unknown = {}
            for name, os_ in byname.items():
                kf = self.match_known(obligation=name)
                if kf:
                    known_hit.append(kf)
                else:
                    unknown[name] = os_
            if not unknown:
                continue
            if any(o["status"] == "solver-disagreement" for os_ in unknown.values() for o in os_):
                raise EngineError("solver disagreement on " + ", ".join(unknown))
            if newnotes:
                degraded.append("%s now calls code without a contract (%s); %d obligations undecided: decided by the bounded stand-in only" % (key, "; ".join(newnotes), len(unknown)))
                continue
            violations.append((key, unknown))

        # replay files
        os.makedirs(os.path.join(VERIF, "replays"), exist_ok=True)
        vio_lines = []
        used_inputs = False
        for key, unknown in violations:
            rp = {"property": self.prop, "function": key, "obligations": [], "found_by": "govc obligation"}
            for name, os_ in sorted(unknown.items()):
                o = os_[0]
                rp["obligations"].append({"name": name, "status": o["status"], "path": o.get("path"), "pos": o.get("pos"), "tried": o.get("tried"), "model": (o.get("model") or "")[:4000], "solver_output": o.get("detail", "")})
            inp = None
            for b, f in bounded_fail_inputs:
                if key in b.get("stands_in_for", []) or not b.get("stands_in_for"):
                    inp = (b, f)
                    break
            if inp:
                rp["input"] = inp[1]
                rp["input_from"] = inp[0]["name"]
                rp["replay_spec"] = inp[0]["name"]
                used_inputs = True
            else:
                rp["no_failing_input_found"] = True
            path = self.write_replay(rp)
            vio_lines.append("VIOLATION property=%s replay=%s%s" % (self.prop, path, "" if inp else " no-failing-input-found"))
        if bounded_fail_inputs and not used_inputs:
            b, f = bounded_fail_inputs[0]
            rp = {"property": self.prop, "found_by": "bounded stand-in " + b["name"], "input": f, "replay_spec": b["name"], "all_failing_cases": [x[1] for x in bounded_fail_inputs][:20]}
            path = self.write_replay(rp)
            vio_lines.append("VIOLATION property=%s replay=%s" % (self.prop, path))
        for e in extra:
            for v in e.get("violations", []):
                kf = self.match_known(case=v.get("id", ""), obligation=v.get("id", ""), case_id=v.get("case_id"))
                if kf:
                    known_hit.append(kf)
                    continue
                path = self.write_replay(dict(v, property=self.prop))
                vio_lines.append("VIOLATION property=%s replay=%s%s" % (self.prop, path, "" if v.get("input") is not None else " no-failing-input-found"))

        seen = set()
        for kf in known_hit:
            if kf["key"] not in seen:
                seen.add(kf["key"])
                self.say("KNOWN-FINDING: property=%s %s" % (self.prop, kf["what"]))
        for d in degraded:
            self.say("DEGRADED: " + d)
        # listed findings that no longer fail: say so (not an error)
        for kf in self.known:
            if kf["key"] not in seen:
                self.say("NOTE: listed finding no longer observed: %s" % kf["key"])

        proof_obls = [o for o in obls if o["expect"] == "unsat"]
        discharged = [o for o in proof_obls if o["status"] == "discharged"]
        covers = [o for o in obls if o["expect"] == "sat" and o["status"].startswith("reachable")]
        ev = self.evidence(funcs, proof_obls, discharged, covers, cmds, trusted, by_solver, solver_s, bounded, extra, degraded, known_hit, len(vio_lines))
        if not os.environ.get("VERIF_NO_EVIDENCE"):
            os.makedirs(os.path.join(VERIF, "evidence"), exist_ok=True)
            json.dump(ev, open(os.path.join(VERIF, "evidence", self.prop + ".json"), "w"), indent=1)
        for l in sorted(set(vio_lines)):
            self.say(l)
        nfun = len([f for f in funcs if f["status"] == "verified"])
        self.say("%s tier=%s: functions under contract=%d verified=%d obligations=%d discharged=%d bounded=%s extra=%s wall=%.1fs" % (
            self.prop, self.tier, len(funcs), nfun, ev["coverage"]["obligations"], ev["coverage"]["discharged"],
            [(b["name"], b["cases"], len(b["fails"])) for b in bounded], [(e.get("name"), e.get("cases")) for e in extra], time.time() - self.t0))
        self.say("phases: " + "; ".join("%s %.0fs%s" % (ph["phase"], ph["secs"], " (cached)" if ph.get("cached") else "") for ph in self.phases))
        if len(funcs) + len(bounded) + len(extra) == 0:
            raise EngineError("no obligations and no cases were generated (vacuous check)")
        if cfg.get("govc") and not proof_obls:
            raise EngineError("govc generated zero obligations (vacuous check)")
        for e in extra:
            if e.get("must_have_obligations") and not e.get("obligations"):
                raise EngineError("%s generated zero obligations (vacuous check)" % e.get("name"))
        return 1 if vio_lines else 0

    def match_known(self, obligation=None, case=None, case_id=None):
        for kf in self.known:
            if obligation is not None and kf.get("key") == obligation:
                return kf
            if case is not None and kf.get("case") and kf["case"] in str(case):
                return kf
            if case_id is not None and kf.get("case_files"):
                if "_ids" not in kf:
                    ids = set()
                    for cf in kf["case_files"]:
                        pth = os.path.join(VERIF, cf)
                        if os.path.exists(pth):
                            ids |= set(open(pth).read().split())
                    kf["_ids"] = ids
                if case_id in kf["_ids"]:
                    return kf
        return None

    def write_replay(self, rp):
        s = json.dumps(rp, indent=1, sort_keys=True)
        h = hashlib.sha1(s.encode()).hexdigest()[:10]
        path = os.path.join(VERIF, "replays", "%s-%s.json" % (self.prop, h))
        open(path, "w").write(s)
        return path

    def evidence(self, funcs, proof_obls, discharged, covers, cmds, trusted, by_solver, solver_s, bounded, extra, degraded, known_hit, nvio):
        cfg = self.cfg
        level = cfg["level"]
        notes = sorted(set(n for f in funcs for n in f.get("notes", [])))
        samples = [{"obligation": o["name"], "path": o.get("path"), "status": o["status"], "solver": o.get("solver"), "secs": round(o.get("secs", 0), 2), "smt_bytes": o.get("smt_bytes")} for o in proof_obls[:: max(1, len(proof_obls) // 12)]][:14]
        cov = {
            "obligations": len(proof_obls),
            "discharged": len(discharged),
            "checker_cmd": " ; ".join(cmds) if cmds else cfg.get("checker_cmd", "./check %s --tier %s" % (self.prop, self.tier)),
            "trusted_base": cfg.get("trusted_base", []) + ["trusted contract: " + t for t in trusted],
            "functions_under_contract": [{"func": f["func"], "status": f["status"], "paths": f.get("paths"), "obligations": f.get("obligations")} for f in funcs],
            "discharged_by_backend": by_solver,
            "solver_time_s": round(solver_s, 1),
            "vacuity_guards_passed": len(covers),
            "samples": samples,
            "explanation": cfg.get("explanation", ""),
            "bounded_stand_ins": [{"name": b["name"], "scope": b["scope"], "cases": b["cases"], "failing": len(b["fails"]), "label": "bounded - never counted as proved", "cmd": b["cmd"]} for b in bounded],
            "degraded": degraded,
            "known_findings_hit": sorted(set(k["key"] for k in known_hit)),
            "generator_notes": notes,
        }
        for e in extra:
            if "obligations" in e:
                cov["obligations"] += e["obligations"]
                cov["discharged"] += e.get("discharged", 0)
                cov["discharged_by_backend"][e.get("backend", "FRAME")] = cov["discharged_by_backend"].get(e.get("backend", "FRAME"), 0) + e.get("discharged", 0)
            cov.setdefault("other_checks", []).append({k: v for k, v in e.items() if k != "violations"})
            if e.get("samples"):
                cov["samples"] += e["samples"][:6]
            for k in ("programs", "disagreements_checked", "evaluations", "distinct_nontrivial", "exhaustive", "states", "transitions", "cells_checked"):
                if k in e:
                    cov[k] = cov.get(k, 0) + e[k] if isinstance(e[k], int) and not isinstance(e[k], bool) else e[k]
        nb = sum(b["cases"] for b in bounded)
        if nb or any("evaluations" in e for e in extra):
            cov["evaluations"] = cov.get("evaluations", 0) + nb
            cov.setdefault("distinct_nontrivial", cov["evaluations"])
            cov.setdefault("rule", "deterministic exhaustive enumeration of the stated scope; every enumerated case is distinct by construction")
        if not cov["samples"]:
            cov["samples"] = [{"note": "no obligations"}]
        cov["phases"] = getattr(self, "phases", [])
        return {
            "property_id": self.prop, "tier": self.tier, "seed": self.seed, "level": level, "coverage": cov,
            "assumptions": self.assumptions + ["abstraction: " + n for n in notes],
            "wall_s": round(time.time() - self.t0, 1), "violations": nvio,
        }

    # ---------------------------------------------------------------- replay
    def replay(self, path):
        rp = json.load(open(path))
        cfg = self.cfg
        if rp.get("input") is not None and rp.get("replay_spec"):
            for spec in cfg.get("bounded", []):
                if spec["name"] == rp["replay_spec"]:
                    inp = rp["input"]
                    case = inp.split(" ", 1)[0] if isinstance(inp, str) else json.dumps(inp)
                    if cfg.get("prepare"):
                        cfg["prepare"](self)
                    envx = {k: (v[self.tier] if isinstance(v, dict) else (v(self) if callable(v) else v)) for k, v in spec.get("env", {}).items()}
                    envx[spec["replay_env"]] = "replay:" + case
                    r = self.run_bounded(spec, envx)
                    if r["fails"]:
                        self.say("replay reproduces: %s" % r["fails"][0])
                        self.say("VIOLATION property=%s replay=%s" % (self.prop, path))
                        return 1
                    self.say("replay does not reproduce on this tree")
                    return 0
        if rp.get("input") is not None:
            for fn in cfg.get("replayers", []):
                rc = fn(self, rp, path)
                if rc is not None:
                    return rc
        # no input: re-run the check and report whether the named obligations still fail
        if rp.get("input") is not None:
            self.say("this case is replayed by re-running the check that found it")
        else:
            self.say("replay file has no failing input (obligations: %s); re-running the check" % [o["name"] for o in rp.get("obligations", [])])
        return self.check()

    # ---------------------------------------------------------------- must-fail corpus
    def selftest(self):
        """Apply every patch of selftest/<prop>/*.diff (and seeded/<prop>*/patch.diff) to a scratch copy of the repo; each must raise a VIOLATION."""
        pats = sorted(glob.glob(os.path.join(VERIF, "selftest", self.prop, "*.diff")) + glob.glob(os.path.join(VERIF, "seeded", self.prop + "-*", "patch.diff")))
        ok = True
        for p in pats:
            scratch = tempfile.mkdtemp(prefix="verif-selftest-")
            try:
                sh(["rsync", "-a", "--exclude", ".git", self.repo + "/", scratch + "/"], check=True)
                rc, o = sh(["git", "apply", "--unsafe-paths", "--directory=" + scratch, p], cwd="/")
                if rc != 0:
                    rc, o = sh(["patch", "-p1", "-i", p], cwd=scratch)
                if rc != 0:
                    self.say("SELFTEST %s: patch does not apply (skipped)" % p)
                    continue
                env = dict(os.environ, VERIF_REPO=scratch)
                rc, o = sh([os.path.join(VERIF, "check"), self.prop, "--tier", self.tier, "--repo", scratch], env=dict(GOENV, VERIF_NO_EVIDENCE="1"))
                got = "VIOLATION" in o
                self.say("SELFTEST %s: %s" % (os.path.relpath(p, VERIF), "detected" if got else "MISSED"))
                if not got:
                    ok = False
            finally:
                shutil.rmtree(scratch, ignore_errors=True)
        return 0 if ok else 1
