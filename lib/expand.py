"""Template expansion: builds gocc from the working tree and runs it on the carrier grammars, so that the
run-time functions that are verified are byte for byte what a user receives."""
import os, json, re, shutil
import common as C


def build_gocc(run):
    out = os.path.join(run.work, "gocc")
    if os.path.exists(out):
        return out
    rc, o = C.sh(["go", "build", "-o", out, "."], cwd=run.repo)
    if rc != 0:
        raise C.EngineError("gocc does not build from the working tree:\n" + o[-3000:])
    return out


def expand(run, names=None):
    """returns {carrier name: dir}; run.expanded is the parent directory"""
    gocc = build_gocc(run)
    base = os.path.join(run.work, "gen")
    os.makedirs(base, exist_ok=True)
    run.expanded = base
    carriers = json.load(open(os.path.join(C.VERIF, "carriers", "carriers.json")))
    out = {}
    for c in carriers:
        if names and c["name"] not in names:
            continue
        if not names and c.get("on_demand"):
            continue  # expanded only by the checks that ask for it by name
        d = os.path.join(base, c["name"])
        if os.path.exists(d):
            out[c["name"]] = d
            continue
        os.makedirs(d)
        open(os.path.join(d, "go.mod"), "w").write("module gen\n\ngo 1.24\n")
        shutil.copy(os.path.join(C.VERIF, "carriers", c["grammar"]), os.path.join(d, "g.bnf"))
        rc, o = C.sh([gocc] + c["flags"] + ["g.bnf"], cwd=d, timeout=120)
        if rc != 0:
            raise C.EngineError("gocc failed on carrier %s (rc=%d):\n%s" % (c["name"], rc, o[-2000:]))
        out[c["name"]] = d
    return out


FUNC_RE = re.compile(r"^func .*?^}\n", re.S | re.M)


def functions(path):
    src = open(path).read()
    fs = {}
    for m in FUNC_RE.finditer(src):
        text = m.group(0)
        hdr = text.split("{", 1)[0].strip()
        fs[hdr] = text
    return fs


def parametricity(dirs, rel, ignore=()):
    """The run-time functions of file `rel` must be textually identical across carriers (they may differ only in
    the constants and tables declared outside function bodies). Returns list of differing function headers."""
    ref, refname, diffs = None, None, []
    for name, d in sorted(dirs.items()):
        p = os.path.join(d, rel)
        if not os.path.exists(p):
            continue
        fs = functions(p)
        if ref is None:
            ref, refname = fs, name
            continue
        for h in set(fs) | set(ref):
            if any(i in h for i in ignore):
                continue
            if fs.get(h) != ref.get(h):
                diffs.append("%s: %s vs %s" % (h, refname, name))
    return diffs
