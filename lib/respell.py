"""C13 bounded stand-in: respell grammar files (layout, character-literal spelling, quoting style) and require
byte-identical generated packages. Token boundaries come from gocc's real scanner (overlay harness)."""
import os, json, hashlib
import common as C

LAYOUTS = [b" ", b"\n", b"\t\r\n", b"/* c */", b"// c\n", b"/***/", b"/** c **/", b"/* a * / b */ "]


def decode_char_lit(lit):
    """value of a Go rune literal given as text (str), or None"""
    body = lit[1:-1]
    if not body.startswith("\\"):
        return ord(body) if len(body) == 1 else None
    c = body[1]
    named = {"a": 7, "b": 8, "f": 12, "n": 10, "r": 13, "t": 9, "v": 11, "\\": 92, "'": 39}
    if c in named and len(body) == 2:
        return named[c]
    try:
        if c == "x" and len(body) == 4:
            return int(body[2:], 16)
        if c == "u" and len(body) == 6:
            return int(body[2:], 16)
        if c == "U" and len(body) == 10:
            return int(body[2:], 16)
        if c in "01234567" and len(body) == 4:
            return int(body[1:], 8)
    except ValueError:
        return None
    return None


def char_spellings(v):
    out = set()
    named = {7: "a", 8: "b", 12: "f", 10: "n", 13: "r", 9: "t", 11: "v", 92: "\\", 39: "'"}
    if v in named:
        out.add("'\\%s'" % named[v])
    if v < 256:
        out.add("'\\x%02x'" % v)
        out.add("'\\x%02X'" % v)
        out.add("'\\%03o'" % v)
    if v < 0x10000 and not (0xD800 <= v < 0xE000):
        out.add("'\\u%04x'" % v)
    if v <= 0x10FFFF and not (0xD800 <= v < 0xE000):
        out.add("'\\U%08X'" % v)
        if v >= 0x20 and v not in (39, 92, 0x7f) and not (0xD800 <= v < 0xE000):
            out.add("'%s'" % chr(v))
    return sorted(out)


def string_spellings(lit):
    """gocc keeps the bytes between the quotes as they are written (no unescaping), so the same content can be
    requoted whenever it is a well-formed body for the other kind of quote."""
    body = lit[1:-1]
    if lit[0] == '"' and not any(ch in body for ch in "`\n"):
        return ["`" + body + "`"]
    if lit[0] == "`" and "\n" not in body:
        # as a double-quoted body: every quote escaped, only the escapes \" and \\ (so that the scanner ends at the same place)
        i, ok = 0, True
        while i < len(body):
            if body[i] == "\\":
                if i + 1 >= len(body) or body[i + 1] not in '"\\':
                    ok = False
                    break
                i += 2
            elif body[i] == '"':
                ok = False
                break
            else:
                i += 1
        if ok:
            return ['"' + body + '"']
    return []


def dump_tokens(run, files):
    ov = {"Replace": {os.path.join(run.repo, "internal/frontend/scanner/verif_dump_test.go"): os.path.join(C.VERIF, "harness/scanner/verif_dump_test.go")}}
    ovp = os.path.join(run.work, "overlay-scan.json")
    json.dump(ov, open(ovp, "w"))
    out = os.path.join(run.work, "tokens.json")
    env = dict(C.GOENV, VERIF_OUT=out, VERIF_SCAN_FILES=",".join(files))
    rc, o = C.sh(["go", "test", "-overlay", ovp, "-vet=off", "-count=1", "-run", "TestVerifDumpTokens", "./internal/frontend/scanner"], cwd=run.repo, env=env, timeout=600)
    if not os.path.exists(out):
        raise C.EngineError("scanner dump harness failed:\n" + o[-2000:])
    return json.load(open(out))


def variants(src, toks, tier):
    """yields (description, bytes)"""
    bsrc = src
    starts = []
    for t in toks:
        starts.append(t["offset"])
    bounds = starts + [len(bsrc)]
    step = 1 if tier == "thorough" else max(1, len(bounds) // 12)
    for bi in range(0, len(bounds), step):
        b = bounds[bi]
        lays = LAYOUTS if tier == "thorough" else [LAYOUTS[(bi // step + j) % len(LAYOUTS)] for j in range(3)]
        for lay in lays:
            yield ("layout %r inserted at offset %d" % (lay.decode(), b), bsrc[:b] + lay + bsrc[b:])
    # all boundaries at once
    out, last = b"", 0
    for i, b in enumerate(bounds):
        out += bsrc[last:b] + LAYOUTS[i % len(LAYOUTS)]
        last = b
    out += bsrc[last:]
    yield ("layout inserted at every token boundary", out)
    # literal respellings
    nchar = 0
    for t in toks:
        lit = t["lit"]
        blit = lit.encode()
        o = t["offset"]
        if bsrc[o:o + len(blit)] != blit:
            continue
        if t["type"] == "char_lit":
            v = decode_char_lit(lit)
            if v is None:
                continue
            nchar += 1
            if tier == "quick" and nchar % 3 != 1:
                sp = char_spellings(v)[:1]
            else:
                sp = char_spellings(v)
            for s in sp:
                if s != lit:
                    yield ("character literal %s respelled %s at offset %d" % (lit, s, o), bsrc[:o] + s.encode() + bsrc[o + len(blit):])
        elif t["type"] == "string_lit":
            for s in string_spellings(lit):
                yield ("string literal %s requoted %s at offset %d" % (lit, s, o), bsrc[:o] + s.encode() + bsrc[o + len(blit):])
    # all char literals to \U form at once
    out, last = b"", 0
    for t in toks:
        if t["type"] == "char_lit":
            v = decode_char_lit(t["lit"])
            blit = t["lit"].encode()
            o = t["offset"]
            if v is not None and bsrc[o:o + len(blit)] == blit and not (0xD800 <= v < 0xE000):
                out += bsrc[last:o] + ("'\\U%08x'" % v).encode()
                last = o + len(blit)
    out += bsrc[last:]
    yield ("every character literal respelled as \\U escape", out)


def respell_check(run, props_mod):
    import expand
    from concurrent.futures import ThreadPoolExecutor
    gocc = expand.build_gocc(run)
    files = [g for g in props_mod.corpus_grammars(run) if "illformed" not in g and not g.endswith("t2.bnf")]
    dump = dump_tokens(run, files)
    viol, cases, samples = [], 0, []
    jobs = []
    for g in files:
        info = dump.get(g)
        if not info or info.get("errors"):
            continue
        src = open(g, "rb").read()
        base_d = os.path.join(run.work, "respell", os.path.basename(g) + "-base")
        rc0, o0 = props_mod.run_gocc(run, gocc, g, ["-a"], base_d)
        ref = (rc0, props_mod.tree_digest(base_d))
        for i, (desc, data) in enumerate(variants(src, info["tokens"], run.tier)):
            jobs.append((g, i, desc, data, ref))

    def one(j):
        g, i, desc, data, ref = j
        d = os.path.join(run.work, "respell", "%s-%d" % (os.path.basename(g), i))
        os.makedirs(d, exist_ok=True)
        p = os.path.join(d, "variant.bnf")
        open(p, "wb").write(data)
        rc, o = props_mod.run_gocc(run, gocc, p, ["-a"], d)
        os.remove(p)
        cur = (rc, props_mod.tree_digest(d))
        import shutil
        shutil.rmtree(d, ignore_errors=True)
        return (g, desc, data, ref, cur)

    with ThreadPoolExecutor(max_workers=16) as ex:
        for g, desc, data, ref, cur in ex.map(one, jobs):
            cases += 1
            if cur != ref and len(viol) < 10:
                viol.append({"id": "respelling changes the generated packages: %s: %s" % (os.path.basename(g), desc), "what": "status/digest %s vs %s of the original spelling" % (cur, ref),
                             "input": {"grammar": g, "respelling": desc, "variant_text": data.decode("utf-8", "replace")[:4000]}})
            if len(samples) < 8 and cases % 97 == 1:
                samples.append({"grammar": os.path.basename(g), "respelling": desc})
    return {"name": "RESPELL layout / character-literal / quoting respellings give byte-identical packages (bounded corpus)", "cases": cases, "evaluations": cases, "violations": viol, "samples": samples}
