//go:build verif

// Trusted purity contracts of the helpers that the -debug_lexer / -debug_parser expansions call inside their
// fmt.Printf statements. Assumptions, listed in the evidence of C12.

package contracts

//@ package util
//@ func util.RuneToString
//@   trusted
//@   assigns nothing
//@
//@ package lexer
//@ func lexer.(ActionRow).String
//@   trusted
//@   assigns nothing
//@
//@ package token
//@ func token.(*Token).String
//@   trusted
//@   assigns nothing
//@ func token.(TokenMap).TokenString
//@   trusted
//@   assigns nothing
//@ func token.(Pos).String
//@   trusted
//@   assigns nothing
