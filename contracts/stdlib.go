//go:build verif

// Trusted contracts of standard-library functions used by the code under contract.
// Every one of these is an assumption and is listed in the evidence files.

package contracts

//@ package utf8
//@
//@ # DecR/DecSize: the (deterministic) result of utf8.DecodeRune as a function of the bytes it is given.
//@ # (a = backing array, o = absolute offset of the first byte, n = number of bytes available)
//@ specfun DecR(a seq[byte], o int, n int) int
//@ specfun DecSize(a seq[byte], o int, n int) int
//@
//@ func utf8.DecodeRune(p) (r, size)
//@   trusted
//@   ensures [fun] r == DecR(raw(p), off(p), len(p)) && size == DecSize(raw(p), off(p), len(p))
//@   ensures [empty] imp(len(p) == 0, r == 0xFFFD && size == 0)
//@   ensures [range] imp(len(p) > 0, 1 <= size && size <= 4 && size <= len(p) && 0 <= r && r <= 0x10FFFF)
//@   ensures [ascii] imp(len(p) > 0 && p[0] < 0x80, r == p[0] && size == 1)
//@   ensures [nonascii] imp(len(p) > 0 && p[0] >= 0x80, r >= 0x80)
//@   ensures [error] imp(len(p) > 0 && r == 0xFFFD && size != 3, size == 1)
//@   assigns nothing
//@
//@ package strconv
//@
//@ specfun ParseIntV(s string, base int, bits int) int
//@ specfun ParseIntE(s string, base int, bits int) error
//@ specfun ParseUintV(s string, base int, bits int) int
//@ specfun ParseUintE(s string, base int, bits int) error
//@
//@ func strconv.ParseInt(s, base, bitSize) (i, err)
//@   trusted
//@   ensures [fun] i == ParseIntV(s, base, bitSize) && err == ParseIntE(s, base, bitSize)
//@   assigns nothing
//@
//@ func strconv.ParseUint(s, base, bitSize) (n, err)
//@   trusted
//@   ensures [fun] n == ParseUintV(s, base, bitSize) && err == ParseUintE(s, base, bitSize)
//@   assigns nothing
//@
//@ package os
//@
//@ # FileIs(v, n, name): v[0..n) are the bytes of the file called name; FileErr(name): the error of reading it
//@ specfun FileIs(v seq[byte], n int, name string) bool
//@ specfun FileErr(name string) error
//@
//@ func os.ReadFile(name) (data, err)
//@   trusted
//@   ensures [err] err == FileErr(name)
//@   ensures [data] imp(err == nil, FileIs(view(data), len(data), name) && (len(data) == 0 || arr(data) >= old(alloc())))
//@   assigns nothing
//@
//@ package strings
//@ specfun HasSuffixF(s string, suffix string) bool
//@ func strings.HasSuffix(s, suffix)
//@   trusted
//@   ensures [fun] result == HasSuffixF(s, suffix)
//@   assigns nothing
//@
//@ package errors
//@ func errors.New(text)
//@   trusted
//@   ensures [nonnil] result != nil
//@   assigns nothing
