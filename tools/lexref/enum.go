package main

import (
	"fmt"
	"math/big"
	"sort"
)

// ---------------------------------------------------------------------------
// Scope enumeration.
//
// A *shape* is a pattern whose leaves are anonymous slots; shapes are
// enumerated exhaustively by (number of leaves n, number of bracket operators
// w).  A pattern is a shape plus a label for every slot taken from the leaf
// set of the scope.  A grammar is a tuple of productions (kinds t / !i / _r)
// plus an optional syntax production contributing string literals.
//
// The space is far larger than what can be run, so every stratum is either
// enumerated exhaustively (small strata) or sampled with a deterministic
// stride: point j of a stratum is the 256-bit fraction frac(j * phi), decoded
// digit by digit (mixed radix, most significant digit first) into production
// kinds, size class, shape and leaf labels.  This is an additive-recurrence
// (Kronecker) stride: every prefix of the digit string is visited evenly.
// The set of cases does not depend on the seed.
// ---------------------------------------------------------------------------

type leafSpec struct {
	kind   TermKind
	lo, hi rune
	text   string
	ref    string
}

func (l leafSpec) term() *Term {
	return &Term{Kind: l.kind, Lo: l.lo, Hi: l.hi, Text: l.text, Ref: l.ref}
}

var (
	leafA     = leafSpec{kind: TChar, lo: 'a', hi: 'a', text: `'a'`}
	leafB     = leafSpec{kind: TChar, lo: 'b', hi: 'b', text: `'b'`}
	leafAC    = leafSpec{kind: TRange, lo: 'a', hi: 'c', text: `'a'-'c'`}
	leafDot   = leafSpec{kind: TDot}
	leafE     = leafSpec{kind: TChar, lo: 'é', hi: 'é', text: `'é'`}
	leafShi   = leafSpec{kind: TChar, lo: '世', hi: '世', text: `'世'`}
	leafCross = leafSpec{kind: TRange, lo: 0x7e, hi: 0x80, text: `'\x7e'-'\u0080'`}
	leafAhex  = leafSpec{kind: TChar, lo: 'a', hi: 'a', text: `'\x61'`}
	leafAoct  = leafSpec{kind: TChar, lo: 'a', hi: 'a', text: `'\141'`}
)

func leafRef(name string) leafSpec { return leafSpec{kind: TRef, ref: name} }

var quickLeaves = []leafSpec{leafA, leafB, leafAC, leafDot}
var thoroughLeaves = []leafSpec{leafA, leafB, leafAC, leafDot, leafE, leafShi, leafCross, leafAhex, leafAoct}

// ---- shapes ---------------------------------------------------------------

type shapeKey struct{ n, w int }

var (
	patShapes  = map[shapeKey][]*Pattern{}
	altShapes  = map[shapeKey][][]*Term{}
	termShapes = map[shapeKey][]*Term{}
)

// compositions of n into k positive parts
func compositions(n, k int) [][]int {
	if k == 1 {
		return [][]int{{n}}
	}
	var out [][]int
	for first := 1; first <= n-(k-1); first++ {
		for _, rest := range compositions(n-first, k-1) {
			out = append(out, append([]int{first}, rest...))
		}
	}
	return out
}

// weak compositions of w into k non-negative parts
func weakCompositions(w, k int) [][]int {
	if k == 1 {
		return [][]int{{w}}
	}
	var out [][]int
	for first := 0; first <= w; first++ {
		for _, rest := range weakCompositions(w-first, k-1) {
			out = append(out, append([]int{first}, rest...))
		}
	}
	return out
}

// genTermShapes: terms with exactly n leaves and w bracket operators.
func genTermShapes(n, w int) []*Term {
	k := shapeKey{n, w}
	if v, ok := termShapes[k]; ok {
		return v
	}
	var out []*Term
	if n == 1 && w == 0 {
		out = append(out, &Term{Kind: TSlot})
	}
	if w >= 1 {
		for _, kind := range []TermKind{TOpt, TRep, TGroup} {
			for _, p := range genPatShapes(n, w-1) {
				out = append(out, &Term{Kind: kind, Sub: p})
			}
		}
	}
	termShapes[k] = out
	return out
}

// genAltShapes: sequences of terms with exactly n leaves and w brackets.
func genAltShapes(n, w int) [][]*Term {
	k := shapeKey{n, w}
	if v, ok := altShapes[k]; ok {
		return v
	}
	var out [][]*Term
	for m := 1; m <= n; m++ {
		for _, ns := range compositions(n, m) {
			for _, ws := range weakCompositions(w, m) {
				seqs := [][]*Term{nil}
				for i := 0; i < m; i++ {
					ts := genTermShapes(ns[i], ws[i])
					var next [][]*Term
					for _, s := range seqs {
						for _, t := range ts {
							ns2 := append(append([]*Term(nil), s...), t)
							next = append(next, ns2)
						}
					}
					seqs = next
					if len(seqs) == 0 {
						break
					}
				}
				out = append(out, seqs...)
			}
		}
	}
	altShapes[k] = out
	return out
}

// genPatShapes: patterns (alternatives) with exactly n leaves and w brackets.
func genPatShapes(n, w int) []*Pattern {
	k := shapeKey{n, w}
	if v, ok := patShapes[k]; ok {
		return v
	}
	var out []*Pattern
	for m := 1; m <= n; m++ {
		for _, ns := range compositions(n, m) {
			for _, ws := range weakCompositions(w, m) {
				pats := []*Pattern{{}}
				for i := 0; i < m; i++ {
					as := genAltShapes(ns[i], ws[i])
					var next []*Pattern
					for _, p := range pats {
						for _, a := range as {
							np := &Pattern{Alts: append(append([][]*Term(nil), p.Alts...), a)}
							next = append(next, np)
						}
					}
					pats = next
					if len(pats) == 0 {
						break
					}
				}
				out = append(out, pats...)
			}
		}
	}
	patShapes[k] = out
	return out
}

// instantiate copies a shape, filling the slots left to right with labels.
func instantiate(p *Pattern, labels []leafSpec, next *int) *Pattern {
	out := &Pattern{}
	for _, a := range p.Alts {
		var na []*Term
		for _, t := range a {
			switch t.Kind {
			case TSlot:
				na = append(na, labels[*next].term())
				*next++
			default:
				na = append(na, &Term{Kind: t.Kind, Sub: instantiate(t.Sub, labels, next)})
			}
		}
		out.Alts = append(out.Alts, na)
	}
	return out
}

// ---- digit source -----------------------------------------------------------

var (
	two256 = new(big.Int).Lsh(big.NewInt(1), 256)
	// floor(2^256 / phi), phi = (1+sqrt 5)/2 ; computed once from sqrt(5)
	phi256 = func() *big.Int {
		// 1/phi = (sqrt(5)-1)/2 ; sqrt(5)*2^256 = isqrt(5 * 2^512)
		s := new(big.Int).Sqrt(new(big.Int).Lsh(big.NewInt(5), 512))
		s.Sub(s, two256)
		s.Rsh(s, 1)
		s.SetBit(s, 0, 1) // odd => the stride visits 2^256 distinct points
		return s
	}()
)

// digits is a point of [0,1) in 256-bit fixed point, consumed as mixed-radix
// digits, most significant first.
type digits struct{ x *big.Int }

func pointOf(j int, salt int) *digits {
	x := new(big.Int).Mul(phi256, big.NewInt(int64(j)+1))
	// the salt shifts the sequence so that different strata do not walk in lockstep
	x.Add(x, new(big.Int).Mul(new(big.Int).Rsh(two256, 7), big.NewInt(int64(salt))))
	x.Mod(x, two256)
	return &digits{x: x}
}

func (d *digits) next(radix int) int {
	if radix <= 1 {
		return 0
	}
	d.x.Mul(d.x, big.NewInt(int64(radix)))
	q := new(big.Int).Rsh(d.x, 256)
	d.x.Mod(d.x, two256)
	return int(q.Int64())
}

// ---- strata -----------------------------------------------------------------

type stratum struct {
	name       string
	k          int        // number of lexical productions
	nReg       int        // how many of them are regular definitions
	kinds      []ProdKind // if non-nil: fixed kinds (exhaustive strata)
	nmax       int        // max leaves per pattern
	wmax       int        // max bracket operators per pattern
	leaves     []leafSpec // base leaf set (references are added per production)
	lits       [][]string // choices for the syntax part; nil entry = no syntax part
	quota      int        // number of distinct runnable cases to take from the stride (ignored when exhaustive)
	exhaustive bool       // enumerate every grammar of the stratum (k == 1 only)
	nExact     []shapeKey // exhaustive: size classes to enumerate
}

type Case struct {
	ID          string
	Text        string
	G           *Grammar
	Stratum     string
	NullableRep bool // some reachable repetition has a body that can match the empty string (gocc before 73a37d1 hung on these)
	Family      bool // member of the systematic nullable-nesting family
}

type classList []shapeKey

func sizeClasses(nmax, wmax int) classList {
	var out classList
	for n := 1; n <= nmax; n++ {
		for w := 0; w <= wmax; w++ {
			if len(genPatShapes(n, w)) > 0 {
				out = append(out, shapeKey{n, w})
			}
		}
	}
	return out
}

func decodePattern(d *digits, classes classList, leaves []leafSpec) *Pattern {
	c := classes[d.next(len(classes))]
	shapes := genPatShapes(c.n, c.w)
	sh := shapes[d.next(len(shapes))]
	labels := make([]leafSpec, c.n)
	for i := range labels {
		labels[i] = leaves[d.next(len(leaves))]
	}
	i := 0
	return instantiate(sh, labels, &i)
}

func regName(i int) string { return fmt.Sprintf("_r%d", i) }

// decodeGrammar turns a digit source into a grammar of the stratum.
func (s *stratum) decodeGrammar(d *digits) *Grammar {
	g := &Grammar{}
	classes := sizeClasses(s.nmax, s.wmax)
	// positions of the regular definitions
	kinds := make([]ProdKind, s.k)
	regNo := make([]int, s.k)
	free := make([]int, s.k)
	for i := range free {
		free[i] = i
	}
	for r := 1; r <= s.nReg; r++ {
		j := d.next(len(free))
		pos := free[j]
		free = append(free[:j:j], free[j+1:]...)
		kinds[pos] = PReg
		regNo[pos] = r
	}
	for _, pos := range free {
		if d.next(3) == 0 { // one third ignored tokens
			kinds[pos] = PIgn
		} else {
			kinds[pos] = PTok
		}
	}
	lit := s.lits[d.next(len(s.lits))]
	if lit != nil {
		// the syntax production needs a token to refer to
		has := false
		for _, k := range kinds {
			if k == PTok {
				has = true
			}
		}
		if !has {
			for i, k := range kinds {
				if k == PIgn {
					kinds[i] = PTok
					break
				}
			}
		}
	}
	nt, ni := 0, 0
	for i := 0; i < s.k; i++ {
		var p Prod
		p.Kind = kinds[i]
		leaves := append([]leafSpec(nil), s.leaves...)
		switch kinds[i] {
		case PTok:
			nt++
			p.Name = fmt.Sprintf("t%d", nt)
			for r := 1; r <= s.nReg; r++ {
				leaves = append(leaves, leafRef(regName(r)))
			}
		case PIgn:
			ni++
			p.Name = fmt.Sprintf("!i%d", ni)
			for r := 1; r <= s.nReg; r++ {
				leaves = append(leaves, leafRef(regName(r)))
			}
		case PReg:
			p.Name = regName(regNo[i])
			for r := 1; r < regNo[i]; r++ { // only lower-numbered definitions: no recursion
				leaves = append(leaves, leafRef(regName(r)))
			}
		}
		p.Pat = decodePattern(d, classes, leaves)
		g.Prods = append(g.Prods, p)
	}
	if lit != nil {
		g.SynTok = "t1"
		g.Lits = lit
	}
	if s.nReg > 0 {
		// make sure some regular definition is actually used by a token or an
		// ignored token: otherwise the case degenerates to a regdef-free one.
		var slots []*Term
		used := false
		for _, p := range g.Prods {
			if p.Kind == PReg {
				continue
			}
			walkTerms(p.Pat, func(t *Term) {
				switch t.Kind {
				case TRef:
					used = true
				case TChar, TRange, TDot:
					slots = append(slots, t)
				}
			})
		}
		if !used && len(slots) > 0 {
			t := slots[d.next(len(slots))]
			*t = *leafRef(regName(1 + d.next(s.nReg))).term()
		}
	}
	return g
}

// exhaustiveGrammars enumerates every single-production grammar `t1 : P ;`
// (with each literal choice) for P in the given size classes.
func (s *stratum) exhaustiveGrammars() []*Grammar {
	var out []*Grammar
	for _, lit := range s.lits {
		for _, c := range s.nExact {
			for _, sh := range genPatShapes(c.n, c.w) {
				labels := make([]leafSpec, c.n)
				idx := make([]int, c.n)
				for {
					for i := range labels {
						labels[i] = s.leaves[idx[i]]
					}
					i := 0
					g := &Grammar{Prods: []Prod{{Name: "t1", Kind: PTok, Pat: instantiate(sh, labels, &i)}}}
					if lit != nil {
						g.SynTok, g.Lits = "t1", lit
					}
					out = append(out, g)
					// next label vector
					j := c.n - 1
					for j >= 0 {
						idx[j]++
						if idx[j] < len(s.leaves) {
							break
						}
						idx[j] = 0
						j--
					}
					if j < 0 {
						break
					}
				}
			}
		}
	}
	return out
}

var noLit = [][]string{nil}

func quickStrata() []*stratum {
	L := quickLeaves
	ab := []string{"ab"}
	return []*stratum{
		{name: "q-exh-1tok", k: 1, exhaustive: true, leaves: L, lits: noLit,
			nExact: []shapeKey{{1, 0}, {1, 1}, {2, 0}, {2, 1}}},
		{name: "q-exh-1tok-lit", k: 1, exhaustive: true, leaves: L, lits: [][]string{ab},
			nExact: []shapeKey{{1, 0}, {2, 0}}},
		{name: "q-1prod", k: 1, nmax: 4, wmax: 2, leaves: L, lits: noLit, quota: 260},
		{name: "q-2prod", k: 2, nmax: 4, wmax: 2, leaves: L, lits: noLit, quota: 380},
		{name: "q-3prod", k: 3, nmax: 4, wmax: 2, leaves: L, lits: noLit, quota: 380},
		{name: "q-1prod-lit", k: 1, nmax: 4, wmax: 2, leaves: L, lits: [][]string{ab}, quota: 120},
		{name: "q-2prod-lit", k: 2, nmax: 4, wmax: 2, leaves: L, lits: [][]string{ab}, quota: 200},
		{name: "q-3prod-lit", k: 3, nmax: 4, wmax: 2, leaves: L, lits: [][]string{ab}, quota: 200},
		{name: "q-2prod-reg", k: 2, nReg: 1, nmax: 4, wmax: 2, leaves: L, lits: [][]string{nil, nil, ab}, quota: 400},
		{name: "q-3prod-reg", k: 3, nReg: 1, nmax: 4, wmax: 2, leaves: L, lits: [][]string{nil, nil, ab}, quota: 480},
	}
}

func thoroughStrata() []*stratum {
	L := thoroughLeaves
	lits := [][]string{nil, nil, nil, {"ab"}, {"a"}, {"ba"}, {"aé"}, {"a", "ab"}}
	onlyLits := lits[3:]
	return []*stratum{
		{name: "t-exh-1tok", k: 1, exhaustive: true, leaves: L, lits: noLit,
			nExact: []shapeKey{{1, 0}, {1, 1}, {1, 2}, {2, 0}, {2, 1}}},
		{name: "t-exh-1tok-lit", k: 1, exhaustive: true, leaves: L, lits: onlyLits,
			nExact: []shapeKey{{1, 0}, {2, 0}}},
		{name: "t-1prod", k: 1, nmax: 5, wmax: 3, leaves: L, lits: lits, quota: 5000},
		{name: "t-2prod", k: 2, nmax: 5, wmax: 3, leaves: L, lits: lits, quota: 9000},
		{name: "t-3prod", k: 3, nmax: 5, wmax: 3, leaves: L, lits: lits, quota: 9000},
		{name: "t-4prod", k: 4, nmax: 5, wmax: 3, leaves: L, lits: lits, quota: 8000},
		{name: "t-2prod-reg", k: 2, nReg: 1, nmax: 5, wmax: 3, leaves: L, lits: lits, quota: 5000},
		{name: "t-3prod-reg", k: 3, nReg: 1, nmax: 5, wmax: 3, leaves: L, lits: lits, quota: 6000},
		{name: "t-4prod-reg", k: 4, nReg: 1, nmax: 5, wmax: 3, leaves: L, lits: lits, quota: 5000},
		{name: "t-3prod-2reg", k: 3, nReg: 2, nmax: 5, wmax: 3, leaves: L, lits: lits, quota: 3000},
		{name: "t-4prod-2reg", k: 4, nReg: 2, nmax: 5, wmax: 3, leaves: L, lits: lits, quota: 3000},
	}
}

// ---- the systematic nullable-nesting family -------------------------------

// nestings returns all sequences (outermost first) of 1..depth bracket kinds.
func nestings(depth int) [][]TermKind {
	var out [][]TermKind
	var rec func(prefix []TermKind)
	rec = func(prefix []TermKind) {
		if len(prefix) > 0 {
			out = append(out, append([]TermKind(nil), prefix...))
		}
		if len(prefix) == depth {
			return
		}
		for _, k := range []TermKind{TOpt, TRep, TGroup} {
			rec(append(prefix, k))
		}
	}
	rec(nil)
	sort.SliceStable(out, func(i, j int) bool { return len(out[i]) < len(out[j]) })
	return out
}

// familyGrammars: `t1 : 'b' NEST(body) ;` (and, when both contexts are asked
// for, `t1 : NEST(body) 'b' ;`) for every nesting of [ ] { } ( ) up to the
// given depth around a non-nullable body ('a') and a nullable body (a
// reference to `_r1 : [ 'a' ] ;`).
func familyGrammars(depth int, bothContexts bool) []*Grammar {
	var out []*Grammar
	type body struct {
		leaf leafSpec
		reg  bool
	}
	bodies := []body{{leafA, false}, {leafRef("_r1"), true}}
	contexts := []bool{true}
	if bothContexts {
		contexts = []bool{true, false}
	}
	for _, prefixCtx := range contexts {
		for _, b := range bodies {
			for _, nest := range nestings(depth) {
				var t *Term = b.leaf.term()
				for i := len(nest) - 1; i >= 0; i-- {
					t = &Term{Kind: nest[i], Sub: &Pattern{Alts: [][]*Term{{t}}}}
				}
				g := &Grammar{}
				if b.reg {
					g.Prods = append(g.Prods, Prod{Name: "_r1", Kind: PReg,
						Pat: &Pattern{Alts: [][]*Term{{{Kind: TOpt, Sub: &Pattern{Alts: [][]*Term{{leafA.term()}}}}}}}})
				}
				alt := []*Term{leafB.term(), t}
				if !prefixCtx {
					alt = []*Term{t, leafB.term()}
				}
				g.Prods = append(g.Prods, Prod{Name: "t1", Kind: PTok, Pat: &Pattern{Alts: [][]*Term{alt}}})
				out = append(out, g)
			}
		}
	}
	return out
}

// ---- putting it together ----------------------------------------------------

type EnumStats struct {
	Generated       int            // grammars produced by the strata (before filtering)
	Duplicates      int            // dropped because the same text was produced before
	NullableRep     int            // cases of the strata with a nullable repetition body (included since gocc 73a37d1 terminates on them)
	SkippedNullable int            // the same cases when they are left out (-skip-nullable-bodies)
	PerStratum      map[string]int // distinct cases kept, per stratum
}

// nullableRepBody: the body of some REPETITION { } reachable from a token or
// ignored token can match the empty string, where a reference to a regular
// definition counts as non-empty (gocc never skips a regular definition).
// gocc before commit 73a37d1 did not terminate on exactly these grammars
// (determined with the systematic family below: all 56 of its 156 members that
// satisfy the predicate timed out and none of the other 100 did; an OPTION with
// a nullable body, [ [ 'a' ] ], always terminated). Since that fix they are
// ordinary cases of the sweep; the predicate is kept for statistics, for the
// -skip-nullable-bodies switch and to keep the case set a superset of the old one.
func nullableRepBody(g *Grammar) bool { return g.HasNullableBody(false, true, false) }

func Enumerate(scope string, skipNullableRep bool) ([]Case, EnumStats, error) {
	var strata []*stratum
	var fam []*Grammar
	switch scope {
	case "quick":
		strata = quickStrata()
		fam = familyGrammars(2, false)
	case "thorough":
		strata = thoroughStrata()
		fam = familyGrammars(3, true)
	case "family": // only the systematic nullable-nesting family (depth 3, both contexts)
		fam = familyGrammars(3, true)
	default:
		return nil, EnumStats{}, fmt.Errorf("unknown scope %q (want quick, thorough or family)", scope)
	}
	stats := EnumStats{PerStratum: map[string]int{}}
	seen := map[string]bool{}
	var cases []Case
	// add reports whether the grammar counts towards the quota of its stratum.
	// Grammars with a nullable repetition body never do: they were left out
	// before gocc 73a37d1, and not counting them keeps every case (and id) of the
	// earlier scope in the current one.
	add := func(g *Grammar, stratumName string, family bool) bool {
		stats.Generated++
		if err := g.CheckRefs(); err != nil {
			panic("enumerator produced an ill-formed grammar: " + err.Error() + "\n" + g.Text())
		}
		text := g.Text()
		id := CaseID(text)
		if seen[id] {
			stats.Duplicates++
			return false
		}
		nrep := nullableRepBody(g)
		seen[id] = true
		if nrep && !family {
			if skipNullableRep {
				stats.SkippedNullable++
				return false
			}
			stats.NullableRep++
		}
		stats.PerStratum[stratumName]++
		cases = append(cases, Case{ID: id, Text: text, G: g, Stratum: stratumName, NullableRep: nrep, Family: family})
		return !nrep || family
	}
	// the family goes first so that its members are never shadowed by the skip rule
	famName := "nullable-family"
	for _, g := range fam {
		add(g, famName, true)
	}
	for si, s := range strata {
		if s.exhaustive {
			for _, g := range s.exhaustiveGrammars() {
				add(g, s.name, false)
			}
			continue
		}
		// walk the stride until `quota` distinct runnable cases were found
		kept := 0
		for j := 0; kept < s.quota && j < 40*s.quota; j++ {
			if add(s.decodeGrammar(pointOf(j, si)), s.name, false) {
				kept++
			}
		}
	}
	return cases, stats, nil
}
