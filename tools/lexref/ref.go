package main

import (
	"fmt"
	"sort"
	"strconv"
	"strings"
)

// ---------------------------------------------------------------------------
// Reference automaton.
//
// Every token production, every ignored-token production and every string
// literal of the syntax part is one *pattern*.  Regular definitions are
// expanded like macros (a fresh copy at every reference).  Each pattern is
// translated into a little position graph: nodes are positions "between"
// symbols, an edge is either free (epsilon: entering / leaving / skipping
// [ ] { } ( ) and choosing an alternative) or labelled with a leaf symbol
// (a character, a character range, or '.').
//
// A reference state is the epsilon-closure of a set of positions.  The step
// on rune r follows the statement of the semantics literally:
//   E = leaf edges leaving the state whose label is a character == r or a
//       range containing r;
//   if E is non-empty exactly those edges are taken, otherwise exactly the
//   '.' edges are taken; the successor is the closure of the targets; if no
//   edge is taken there is no transition.
// ---------------------------------------------------------------------------

const MaxRune = 0x10FFFF

type symKind int

const (
	symRange symKind = iota // char or range lo..hi
	symDot
)

type refEdge struct {
	kind   symKind
	lo, hi rune
	to     int
}

type refPattern struct {
	name    string // token name, "!ignored" name, or literal text
	ignored bool
	literal bool
	order   int // declaration order among token/ignored productions
	start   int
	final   int
}

type RefAutomaton struct {
	eps      [][]int     // epsilon edges per node
	edges    [][]refEdge // leaf edges per node
	finalOf  map[int]int // node -> pattern index
	patterns []refPattern

	states   []*refState
	stateIdx map[string]int

	// bookkeeping used only to classify failures (see RegdefOverlap): every
	// macro expansion of a regular definition is an "instance"
	nodeInst   []int // innermost instance a node lies in, -1 if none
	instName   []string
	instParent []int
	curInst    int
}

type refState struct {
	nodes []int // closure, sorted; only "important" nodes (with leaf edges or final)
	key   string
}

type Verdict struct {
	Kind string // "accept", "ignore", "none"
	Name string
}

func (v Verdict) String() string {
	if v.Kind == "none" {
		return "none"
	}
	return v.Kind + " " + v.Name
}

func (a *RefAutomaton) newNode() int {
	a.eps = append(a.eps, nil)
	a.edges = append(a.edges, nil)
	a.nodeInst = append(a.nodeInst, a.curInst)
	return len(a.eps) - 1
}

func (a *RefAutomaton) addEps(from, to int) { a.eps[from] = append(a.eps[from], to) }

// BuildRef builds the reference automaton of a grammar. It fails if a regular
// definition is undefined or recursive.
func BuildRef(g *Grammar) (*RefAutomaton, error) {
	if err := g.CheckRefs(); err != nil {
		return nil, err
	}
	a := &RefAutomaton{finalOf: map[int]int{}, stateIdx: map[string]int{}, curInst: -1}
	defs := g.regdefs()
	order := 0
	for _, p := range g.Prods {
		if p.Kind == PReg {
			continue
		}
		s := a.newNode()
		f := a.buildPattern(p.Pat, s, defs)
		a.finalOf[f] = len(a.patterns)
		a.patterns = append(a.patterns, refPattern{name: p.Name, ignored: p.Kind == PIgn, order: order, start: s, final: f})
		order++
	}
	for _, lit := range g.Lits {
		s := a.newNode()
		cur := s
		for _, r := range lit {
			n := a.newNode()
			a.edges[cur] = append(a.edges[cur], refEdge{kind: symRange, lo: r, hi: r, to: n})
			cur = n
		}
		a.finalOf[cur] = len(a.patterns)
		a.patterns = append(a.patterns, refPattern{name: lit, literal: true, order: order, start: s, final: cur})
		order++
	}
	var starts []int
	for _, p := range a.patterns {
		starts = append(starts, p.start)
	}
	a.intern(a.closure(starts)) // state 0
	return a, nil
}

// buildPattern adds the positions of p starting at node `from` and returns the
// node reached when p is complete.
func (a *RefAutomaton) buildPattern(p *Pattern, from int, defs map[string]*Pattern) int {
	end := a.newNode()
	for _, alt := range p.Alts {
		cur := a.newNode()
		a.addEps(from, cur)
		for _, t := range alt {
			cur = a.buildTerm(t, cur, defs)
		}
		a.addEps(cur, end)
	}
	return end
}

func (a *RefAutomaton) buildTerm(t *Term, from int, defs map[string]*Pattern) int {
	switch t.Kind {
	case TChar, TRange:
		to := a.newNode()
		a.edges[from] = append(a.edges[from], refEdge{kind: symRange, lo: t.Lo, hi: t.Hi, to: to})
		return to
	case TDot:
		to := a.newNode()
		a.edges[from] = append(a.edges[from], refEdge{kind: symDot, to: to})
		return to
	case TRef:
		// macro expansion: a fresh copy of the definition's pattern
		saved := a.curInst
		a.instName = append(a.instName, t.Ref)
		a.instParent = append(a.instParent, saved)
		a.curInst = len(a.instName) - 1
		end := a.buildPattern(defs[t.Ref], from, defs)
		a.curInst = saved
		out := a.newNode() // the position after the reference lies outside the instance
		a.addEps(end, out)
		return out
	case TGroup:
		return a.buildPattern(t.Sub, from, defs)
	case TOpt:
		end := a.buildPattern(t.Sub, from, defs)
		a.addEps(from, end) // skip
		return end
	case TRep:
		// zero or more: from -> loop ; loop -> body -> loop ; loop -> out
		loop := a.newNode()
		a.addEps(from, loop)
		bodyEnd := a.buildPattern(t.Sub, loop, defs)
		a.addEps(bodyEnd, loop)
		out := a.newNode()
		a.addEps(loop, out)
		return out
	}
	panic("unexpected term kind in reference construction")
}

func (a *RefAutomaton) closure(seed []int) []int {
	seen := map[int]bool{}
	stack := append([]int(nil), seed...)
	for len(stack) > 0 {
		n := stack[len(stack)-1]
		stack = stack[:len(stack)-1]
		if seen[n] {
			continue
		}
		seen[n] = true
		stack = append(stack, a.eps[n]...)
	}
	var out []int
	for n := range seen {
		if len(a.edges[n]) > 0 {
			out = append(out, n)
		} else if _, ok := a.finalOf[n]; ok {
			out = append(out, n)
		}
	}
	sort.Ints(out)
	return out
}

func (a *RefAutomaton) intern(nodes []int) int {
	var sb strings.Builder
	for _, n := range nodes {
		sb.WriteString(strconv.Itoa(n))
		sb.WriteByte(',')
	}
	key := sb.String()
	if i, ok := a.stateIdx[key]; ok {
		return i
	}
	a.states = append(a.states, &refState{nodes: nodes, key: key})
	a.stateIdx[key] = len(a.states) - 1
	return len(a.states) - 1
}

// Step returns the successor of state q on rune r, or -1 if there is none.
func (a *RefAutomaton) Step(q int, r rune) int {
	var specific, dots []int
	for _, n := range a.states[q].nodes {
		for _, e := range a.edges[n] {
			switch e.kind {
			case symRange:
				if e.lo <= r && r <= e.hi {
					specific = append(specific, e.to)
				}
			case symDot:
				dots = append(dots, e.to)
			}
		}
	}
	adv := specific
	if len(adv) == 0 {
		adv = dots
	}
	if len(adv) == 0 {
		return -1
	}
	return a.intern(a.closure(adv))
}

// Verdict of state q: a complete string literal wins; otherwise the complete
// pattern declared first wins.
func (a *RefAutomaton) Verdict(q int) Verdict {
	best := -1
	for _, n := range a.states[q].nodes {
		pi, ok := a.finalOf[n]
		if !ok {
			continue
		}
		if best < 0 {
			best = pi
			continue
		}
		b, c := a.patterns[best], a.patterns[pi]
		switch {
		case c.literal && !b.literal:
			best = pi
		case c.literal == b.literal && c.order < b.order:
			best = pi
		}
	}
	if best < 0 {
		return Verdict{Kind: "none"}
	}
	p := a.patterns[best]
	if p.ignored {
		return Verdict{Kind: "ignore", Name: p.name}
	}
	return Verdict{Kind: "accept", Name: p.name}
}

// Bounds returns the interval end points (lo and hi+1) of every character /
// range label leaving state q.
func (a *RefAutomaton) Bounds(q int) []rune {
	var out []rune
	for _, n := range a.states[q].nodes {
		for _, e := range a.edges[n] {
			if e.kind == symRange {
				out = append(out, e.lo, e.hi+1)
			}
		}
	}
	return out
}

func (a *RefAutomaton) Describe(q int) string {
	if q < 0 {
		return "no state"
	}
	return fmt.Sprintf("R%d(%s)", q, a.Verdict(q))
}

// Run feeds the runes to the reference automaton from the start state. It
// returns the number of runes consumed before getting stuck (== len(in) if it
// never got stuck) and the state reached last.
func (a *RefAutomaton) Run(in []rune) (consumed int, last int) {
	q := 0
	for i, r := range in {
		n := a.Step(q, r)
		if n < 0 {
			return i, q
		}
		q = n
	}
	return len(in), q
}
