package main

import (
	"os"
	"path/filepath"
	"testing"
)

func mustParse(t *testing.T, src string) *Grammar {
	t.Helper()
	g, err := ParseGrammar([]byte(src))
	if err != nil {
		t.Fatalf("parse %q: %v", src, err)
	}
	return g
}

// scan runs the reference automaton the way the generated lexer's Scan does:
// read while there is a transition, the verdict is that of the last state.
func refScan(t *testing.T, g *Grammar, in string) (int, string) {
	t.Helper()
	a, err := BuildRef(g)
	if err != nil {
		t.Fatal(err)
	}
	n, q := a.Run([]rune(in))
	return n, a.Verdict(q).String()
}

func TestReferenceSemantics(t *testing.T) {
	cases := []struct {
		grammar string
		input   string
		read    int // runes read before getting stuck
		verdict string
	}{
		// plain sequence, longest match continues past an accepting state
		{`t1 : 'a' ; t2 : 'a' 'b' ;`, "ab", 2, "accept t2"},
		{`t1 : 'a' ; t2 : 'a' 'b' ;`, "a", 1, "accept t1"},
		{`t1 : 'a' ; t2 : 'a' 'b' ;`, "ac", 1, "accept t1"},
		// earliest declared wins
		{`t1 : 'a'-'c' ; t2 : 'a' ;`, "a", 1, "accept t1"},
		{`t2 : 'a' ; t1 : 'a'-'c' ;`, "a", 1, "accept t2"},
		{`!i1 : 'a' ; t1 : 'a' ;`, "a", 1, "ignore !i1"},
		{`t1 : 'a' ; !i1 : 'a' ;`, "a", 1, "accept t1"},
		// a string literal wins over every named pattern, wherever declared
		{"t1 : 'a' 'b' ;\nS : t1 \"ab\" ;", "ab", 2, "accept ab"},
		{"!i1 : 'a' 'b' ; t1 : 'c' ;\nS : t1 \"ab\" ;", "ab", 2, "accept ab"},
		{"t1 : 'a' { 'b' } ;\nS : t1 \"ab\" ;", "abb", 3, "accept t1"},
		// '.' only matches what no more specific alternative AT THAT POINT matches,
		// across all patterns of the state
		{`t1 : . 'x' ; t2 : 'a' 'y' ;`, "ax", 1, "none"},
		{`t1 : . 'x' ; t2 : 'a' 'y' ;`, "ay", 2, "accept t2"},
		{`t1 : . 'x' ; t2 : 'a' 'y' ;`, "bx", 2, "accept t1"},
		{`t1 : { . } 'z' ;`, "abz", 3, "accept t1"},
		{`t1 : { . } 'z' ;`, "zz", 1, "accept t1"}, // after z the loop's '.' did not advance
		{`t1 : 'a'-'c' 'x' | . 'y' ;`, "by", 1, "none"},
		// option, repetition, grouping
		{`t1 : [ 'a' ] 'b' ;`, "b", 1, "accept t1"},
		{`t1 : [ 'a' ] 'b' ;`, "ab", 2, "accept t1"},
		{`t1 : { 'a' | 'b' 'c' } ;`, "", 0, "accept t1"},
		{`t1 : { 'a' | 'b' 'c' } ;`, "abca", 4, "accept t1"},
		{`t1 : { 'a' | 'b' 'c' } ;`, "ab", 2, "none"},
		{`t1 : ( 'a' | 'b' ) ( 'c' | 'd' ) ;`, "bd", 2, "accept t1"},
		{`t1 : 'b' { [ 'a' ] } ;`, "baa", 3, "accept t1"}, // nullable body is fine for the reference
		// regular definitions are macros
		{`_r : 'a' 'a' ; t : _r 'b' | 'a' _r 'c' ;`, "aaac", 4, "accept t"},
		{`_r : 'a' 'a' ; t : _r 'b' | 'a' _r 'c' ;`, "aac", 2, "none"},
		{`_r : 'a' 'a' ; t : _r 'b' | 'a' _r 'c' ;`, "aab", 3, "accept t"},
		{`_r : [ 'a' ] ; !i1 : ( _r | 'b' ) 'c' ;`, "c", 1, "ignore !i1"},
		{`_r : [ 'a' ] ; !i1 : ( _r | 'b' ) 'c' ;`, "ac", 2, "ignore !i1"},
		{`_d : '0'-'9' ; _n : _d { _d } ; num : _n [ '.' _n ] ;`, "12.5", 4, "accept num"},
		{`_d : '0'-'9' ; _n : _d { _d } ; num : _n [ '.' _n ] ;`, "12.", 3, "none"},
		// escapes and multi-byte runes
		{`t1 : '\x61' '\141' 'a' ;`, "aaa", 3, "accept t1"},
		{`t1 : '\x7e'-'\u0080' ;`, "\u007f", 1, "accept t1"},
		{`t1 : '\x7e'-'\u0080' ;`, "\u0080", 1, "accept t1"},
		{`t1 : '\x7e'-'\u0080' ;`, "\u0081", 0, "none"},
		{`t1 : 'é' '世' ;`, "é世", 2, "accept t1"},
		{`t1 : '\n' | '\'' | '\\' ;`, "'", 1, "accept t1"},
	}
	for _, c := range cases {
		g := mustParse(t, c.grammar)
		n, v := refScan(t, g, c.input)
		if n != c.read || v != c.verdict {
			t.Errorf("%s on %q: read %d verdict %q, want read %d verdict %q", c.grammar, c.input, n, v, c.read, c.verdict)
		}
	}
}

func TestRecursionRejected(t *testing.T) {
	for _, src := range []string{`_r : 'a' _r ; t : _r ;`, `_a : _b ; _b : 'x' _a ; t : _a ;`, `t : _nope ;`} {
		if _, err := BuildRef(mustParse(t, src)); err == nil {
			t.Errorf("%s: expected an error", src)
		}
	}
}

func TestNullableAndFamily(t *testing.T) {
	hang := map[string]bool{
		`t : 'b' { [ 'a' ] } ;`:                 true,
		`t : 'b' { { 'a' } } ;`:                 true,
		`t : 'b' [ [ 'a' ] ] ;`:                 false,
		`t : 'b' [ { 'a' } ] ;`:                 false,
		`t : 'b' { ( 'a' | [ 'c' ] ) } ;`:       true,
		`_r : [ 'a' ] ; t : 'b' { _r } ;`:       false, // gocc never treats a reference as empty
		`_r : { [ 'a' ] } ; t : 'b' _r ;`:       true,
		`_r : { [ 'a' ] } ; t : 'b' ;`:          false, // unused definition
		`_r : 'a' ; t : 'b' { _r | [ 'c' ] } ;`: true,
	}
	for src, want := range hang {
		if got := nullableRepBody(mustParse(t, src)); got != want {
			t.Errorf("nullableRepBody(%s) = %v, want %v", src, got, want)
		}
	}
	fam := map[string]string{
		`t : 'a' ;`: "no-regdef",
		`_r : 'a' 'a' ; t : _r 'b' | 'a' _r 'c' ;`: "regdef-shared",
		`_r : [ 'a' ] ; !i1 : ( _r | 'b' ) 'c' ;`:  "regdef-nullable",
		`_r : 'a' 'a' ; t : _r 'b' ;`:              "other",
		`_r : 'a' 'a' ; t : _r 'b' ; u : _r 'c' ;`: "other", // two uses, always entered at the same offset
		`_r : 'b' 'a' | 'b' ; t : { 'b' } _r ;`:    "regdef-shared",
		`_r : 'b' | 'b' 'a' ; t : { _r } ;`:        "regdef-shared",
		`_r : 'b' 'a' ; t : { _r } ;`:              "other", // re-entered only after it is complete
	}
	for src, want := range fam {
		if got, why := mustParse(t, src).Classify(); got != want {
			t.Errorf("Classify(%s) = %s (%s), want %s", src, got, why, want)
		}
	}
}

const fixtureTrans = `package lexer
type TransitionTable [NumStates]func(rune) int
var TransTab = TransitionTable{
	// S0
	func(r rune) int {
		switch {
		case r == 97: // ['a','a']
			return 1
		case 98 <= r && r <= 99: // ['b','c']
			return 2
		default:
			return 3
		}
	},
	// S1
	func(r rune) int {
		switch {
		case r == 98: // ['b','b']
			return 2
		}
		return NoState
	},
	// S2
	func(r rune) int {
		switch {
		}
		return NoState
	},
	// S3
	func(r rune) int {
		switch {
		}
		return NoState
	},
}
`

const fixtureAct = `package lexer
type ActionTable [NumStates]ActionRow
type ActionRow struct {
	Accept token.Type
	Ignore string
}
var ActTab = ActionTable{
	ActionRow{ // S0
		Accept: 0,
		Ignore: "",
	},
	ActionRow{ // S1
		Accept: 2,
		Ignore: "",
	},
	ActionRow{ // S2
		Accept: -1,
		Ignore: "!i1",
	},
	ActionRow{ // S3
		Accept: 3,
		Ignore: "",
	},
}
`

const fixtureTok = `package token
var TokMap = TokenMap{
	typeMap: []string{
		"INVALID",
		"␚",
		"t1",
		"t2",
	},
	idMap: map[string]Type{
		"INVALID": 0,
		"␚":       1,
		"t1":      2,
		"t2":      3,
	},
}
`

const fixtureLexer = `package lexer
const (
	NoState    = -1
	NumStates  = 4
	NumSymbols = 11
)
`

func writeFixture(t *testing.T, trans, act, tok, lexer string) string {
	t.Helper()
	dir := t.TempDir()
	os.MkdirAll(filepath.Join(dir, "lexer"), 0o755)
	os.MkdirAll(filepath.Join(dir, "token"), 0o755)
	for name, content := range map[string]string{
		"lexer/transitiontable.go": trans, "lexer/acttab.go": act, "token/token.go": tok, "lexer/lexer.go": lexer} {
		if err := os.WriteFile(filepath.Join(dir, name), []byte(content), 0o644); err != nil {
			t.Fatal(err)
		}
	}
	return dir
}

func TestReadEmittedAndBisim(t *testing.T) {
	dir := writeFixture(t, fixtureTrans, fixtureAct, fixtureTok, fixtureLexer)
	em, err := ReadEmitted(dir)
	if err != nil {
		t.Fatal(err)
	}
	if wf := em.CheckWF(); len(wf) != 0 {
		t.Fatalf("unexpected wf violations: %v", wf)
	}
	if em.Step(0, 'a') != 1 || em.Step(0, 'c') != 2 || em.Step(0, 'z') != 3 || em.Step(1, 'z') != -1 || em.Step(1, 'b') != 2 {
		t.Fatalf("Step misreads the fixture")
	}
	// the grammar this table is the DFA of
	good := mustParse(t, `t1 : 'a' ; !i1 : 'a' 'b' | 'b'-'c' ; t2 : . ;`)
	ref, _ := BuildRef(good)
	if f := Bisim(em, ref); f != nil {
		t.Fatalf("expected bisimilar, got %s", f.Msg)
	}
	// near misses must all be told apart, with a shortest witness
	for src, wantLen := range map[string]int{
		`t1 : 'a' ; !i1 : 'a' 'b' | 'b'-'d' ; t2 : . ;`:         1, // d
		`t1 : 'a' ; !i1 : 'a' 'b' | 'b'-'c' ;`:                  1, // any other rune
		`t2 : 'a' ; !i1 : 'a' 'b' | 'b'-'c' ; t1 : . ;`:         1, // verdicts swapped
		`t1 : 'a' ; !i1 : 'a' 'b' 'b' | 'b'-'c' ; t2 : . ;`:     2,
		`t1 : 'a' [ 'c' ] ; !i1 : 'a' 'b' | 'b'-'c' ; t2 : . ;`: 2,
		`t1 : [ 'a' ] ; !i1 : 'a' 'b' | 'b'-'c' ; t2 : . ;`:     0, // start state accepting
		`t1 : 'a' ; !i2 : 'a' 'b' | 'b'-'c' ; t2 : . ;`:         1, // ignored name differs
		`t1 : 'a' ; !i1 : 'a' 'b' | 'b'-'c' ; t2 : . { 'q' } ;`: 2,
	} {
		ref, err := BuildRef(mustParse(t, src))
		if err != nil {
			t.Fatal(err)
		}
		f := Bisim(em, ref)
		if f == nil {
			t.Errorf("%s: not distinguished from the fixture DFA", src)
			continue
		}
		if len(f.Witness) != wantLen {
			t.Errorf("%s: witness %q has length %d, want %d (%s)", src, string(f.Witness), len(f.Witness), wantLen, f.Msg)
		}
	}
}

func TestWFViolations(t *testing.T) {
	bad := []struct{ trans, act, tok, lexer, what string }{
		{replace(fixtureTrans, "return 3", "return 4"), fixtureAct, fixtureTok, fixtureLexer, "state out of range"},
		{fixtureTrans, replace(fixtureAct, `Ignore: "!i1"`, `Ignore: ""`), fixtureTok, fixtureLexer, "ignore without name"},
		{fixtureTrans, replace(fixtureAct, "Accept: 2", "Accept: 1"), fixtureTok, fixtureLexer, "accept EOF"},
		{fixtureTrans, fixtureAct, replace(fixtureTok, `"t2":      3`, `"t2":      2`), fixtureLexer, "idMap"},
		{fixtureTrans, fixtureAct, replace(fixtureTok, "\"t2\",\n", "\"t1\",\n"), fixtureLexer, "dup typeMap"},
		{fixtureTrans, fixtureAct, fixtureTok, replace(fixtureLexer, "NumStates  = 4", "NumStates  = 5"), "NumStates"},
		{fixtureTrans, replace(fixtureAct, "Accept: 3", "Accept: 7"), fixtureTok, fixtureLexer, "accept outside typeMap"},
	}
	for _, b := range bad {
		em, err := ReadEmitted(writeFixture(t, b.trans, b.act, b.tok, b.lexer))
		if err != nil {
			t.Fatalf("%s: %v", b.what, err)
		}
		if wf := em.CheckWF(); len(wf) == 0 {
			t.Errorf("%s: no wf violation reported", b.what)
		}
	}
	// unknown shapes are a read error, never silently accepted
	if _, err := ReadEmitted(writeFixture(t, replace(fixtureTrans, "r == 97", "isLetter(r)"), fixtureAct, fixtureTok, fixtureLexer)); err == nil {
		t.Errorf("unknown case shape accepted")
	}
}

func replace(s, old, new string) string {
	i := indexOf(s, old)
	if i < 0 {
		panic("fixture does not contain " + old)
	}
	return s[:i] + new + s[i+len(old):]
}

func indexOf(s, sub string) int {
	for i := 0; i+len(sub) <= len(s); i++ {
		if s[i:i+len(sub)] == sub {
			return i
		}
	}
	return -1
}

func TestEnumerationDeterministic(t *testing.T) {
	a, sa, err := Enumerate("quick", false)
	if err != nil {
		t.Fatal(err)
	}
	b, _, _ := Enumerate("quick", false)
	if len(a) != len(b) {
		t.Fatalf("different sizes %d %d", len(a), len(b))
	}
	seen := map[string]bool{}
	for i := range a {
		if a[i].ID != b[i].ID {
			t.Fatalf("case %d differs", i)
		}
		if seen[a[i].ID] {
			t.Fatalf("duplicate id %s", a[i].ID)
		}
		seen[a[i].ID] = true
		// the text must round-trip through the BNF reader to the same grammar
		g, err := ParseGrammar([]byte(a[i].Text))
		if err != nil {
			t.Fatalf("%s: %v", a[i].Text, err)
		}
		if g.Text() != a[i].Text {
			t.Fatalf("round trip changed the grammar:\n%s\n%s", a[i].Text, g.Text())
		}
		if err := a[i].G.CheckRefs(); err != nil {
			t.Fatalf("%s: %v", a[i].Text, err)
		}
	}
	if len(a) < 1000 || len(a) > 3500 {
		t.Errorf("quick scope has %d cases", len(a))
	}
	// leaving the nullable-repetition grammars out gives exactly the earlier
	// scope, as a subset with the same ids
	old, so, _ := Enumerate("quick", true)
	if len(old) != 2813 || so.SkippedNullable != 304 || len(a) != len(old)+so.SkippedNullable {
		t.Errorf("old scope %d cases, %d skipped; new scope %d", len(old), so.SkippedNullable, len(a))
	}
	for _, c := range old {
		if !seen[c.ID] {
			t.Fatalf("case %s of the earlier scope is missing", c.ID)
		}
	}
	t.Logf("quick: %d cases, %+v", len(a), sa)
}

func TestShapeCounts(t *testing.T) {
	// n leaves, no brackets: every gap is either a sequence or an alternative
	for n, want := range map[int]int{1: 1, 2: 2, 3: 4, 4: 8, 5: 16} {
		if got := len(genPatShapes(n, 0)); got != want {
			t.Errorf("shapes(%d,0) = %d, want %d", n, got, want)
		}
	}
	if got := len(genPatShapes(1, 1)); got != 3 {
		t.Errorf("shapes(1,1) = %d, want 3", got)
	}
	if got := len(genPatShapes(1, 2)); got != 9 {
		t.Errorf("shapes(1,2) = %d, want 9", got)
	}
}
