module lexref

go 1.24
