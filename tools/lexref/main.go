// lexref: an independent reference semantics of gocc's lexical rules, used as
// an oracle for the DFA tables gocc emits. See README.md.
package main

import (
	"bytes"
	"context"
	"encoding/json"
	"flag"
	"fmt"
	"hash/fnv"
	"math/rand"
	"os"
	"os/exec"
	"path/filepath"
	"runtime"
	"runtime/pprof"
	"sort"
	"strconv"
	"strings"
	"sync"
	"sync/atomic"
	"time"
)

type Fail struct {
	ID              string `json:"id"`
	Grammar         string `json:"grammar"`
	Kind            string `json:"kind"`   // bisim | wf | timeout | gocc-error | parse | internal
	Family          string `json:"family"` // no-regdef | regdef-shared | regdef-nullable | other | nullable-body
	FamilyReason    string `json:"family_reason,omitempty"`
	Msg             string `json:"msg"`
	WitnessInputHex string `json:"witness_input_hex"`
	Stratum         string `json:"stratum"`
}

type Sample struct {
	ID      string `json:"id"`
	Stratum string `json:"stratum"`
	Grammar string `json:"grammar"`
}

type Result struct {
	Scope               string         `json:"scope"`
	Seed                int64          `json:"seed"`
	Shard               string         `json:"shard"`
	Gocc                string         `json:"gocc"`
	Cases               int            `json:"cases"`
	WithRegdefs         int            `json:"with_regdefs"`
	Timeouts            int            `json:"timeouts"`
	FailsByKind         map[string]int `json:"fails_by_kind"`
	FailsByFamily       map[string]int `json:"fails_by_family"`
	ScopeCases          int            `json:"scope_cases"`
	ScopeGenerated      int            `json:"scope_generated"`
	ScopeDuplicates     int            `json:"scope_duplicates_skipped"`
	ScopeNullableRep    int            `json:"scope_nullable_body_included"`
	ScopeSkippedNull    int            `json:"scope_nullable_body_skipped"`
	ScopePerStratum     map[string]int `json:"scope_cases_per_stratum"`
	NullableFamilyCases int            `json:"nullable_family_cases"`
	Aborted             string         `json:"aborted,omitempty"`
	ExpandRegdefs       bool           `json:"expand_regdefs,omitempty"`
	NotRun              int            `json:"not_run"`
	StarvedRetries      int            `json:"starved_retries"`
	ElapsedSeconds      float64        `json:"elapsed_seconds"`
	Fails               []Fail         `json:"fails"`
	Samples             []Sample       `json:"samples"`
}

func main() {
	if len(os.Args) < 2 {
		usage()
	}
	switch os.Args[1] {
	case "sweep":
		os.Exit(cmdSweep(os.Args[2:]))
	case "check":
		os.Exit(cmdCheck(os.Args[2:]))
	case "list":
		os.Exit(cmdList(os.Args[2:]))
	case "diff":
		os.Exit(cmdDiff(os.Args[2:]))
	default:
		usage()
	}
}

func usage() {
	fmt.Fprintln(os.Stderr, `usage:
  lexref sweep -gocc <gocc binary> -scope <quick|thorough> [-seed n] [-shard i/n] -out result.json [-only caseid] [-j workers] [-timeout 10s]
  lexref check -gocc <gocc binary> <grammar.bnf>     check one hand-written grammar
  lexref list  -scope <quick|thorough> [-v]          print the enumeration (no gocc runs)
  lexref diff  -base base.json -new new.json         failures of new.json that base.json does not have (and vice versa)`)
	os.Exit(2)
}

// ---- running gocc on one grammar -------------------------------------------

type runner struct {
	gocc    string
	timeout time.Duration
	tmp     string
	retries int32 // runs repeated because a wall-clock timeout hit a starved child
	expand  bool  // self-check: give gocc the macro-expanded grammar
}

type outcome struct {
	fails    []Fail // zero or more failures for this case
	timedOut bool
}

func (r *runner) scratch() (string, error) {
	base := r.tmp
	if base == "" {
		base = os.Getenv("TMPDIR")
	}
	if base == "" {
		base = "/tmp"
	}
	return os.MkdirTemp(base, "lexref-")
}

// runCase runs gocc on the grammar and compares the emitted tables with the
// reference automaton.
func (r *runner) runCase(c Case) (out outcome) {
	mk := func(kind, msg, wit string) Fail {
		fam, why := c.G.Classify()
		if kind == "timeout" && c.NullableRep {
			fam, why = "nullable-body", "a repetition whose body can match the empty string (gocc before 73a37d1 did not terminate on these)"
		}
		return Fail{ID: c.ID, Grammar: c.Text, Kind: kind, Family: fam, FamilyReason: why, Msg: msg, WitnessInputHex: wit, Stratum: c.Stratum}
	}
	defer func() {
		if p := recover(); p != nil {
			out.fails = append(out.fails, mk("internal", fmt.Sprintf("lexref panic: %v", p), ""))
		}
	}()
	dir, err := r.scratch()
	if err != nil {
		return outcome{fails: []Fail{mk("internal", "cannot create scratch directory: "+err.Error(), "")}}
	}
	defer os.RemoveAll(dir)
	if err := os.WriteFile(filepath.Join(dir, "go.mod"), []byte("module x\n\ngo 1.24\n"), 0o644); err != nil {
		return outcome{fails: []Fail{mk("internal", err.Error(), "")}}
	}
	bnf := c.Text
	if r.expand {
		bnf = c.G.Expanded().Text()
	}
	if err := os.WriteFile(filepath.Join(dir, "g.bnf"), []byte(bnf), 0o644); err != nil {
		return outcome{fails: []Fail{mk("internal", err.Error(), "")}}
	}
	timeout := r.timeout
	var buf bytes.Buffer
	for attempt := 1; ; attempt++ {
		buf.Reset()
		timedOut, cpu, wall, err := r.runGocc(dir, timeout, &buf)
		if timedOut {
			// A wall-clock timeout on an overloaded machine proves nothing: if the
			// child got less than half of the time as CPU time it was starved, not
			// spinning. Such a run gets up to two more attempts with a four times
			// longer limit.
			if attempt < 3 && cpu < timeout/2 {
				atomic.AddInt32(&r.retries, 1)
				os.RemoveAll(filepath.Join(dir, "lexer"))
				os.RemoveAll(filepath.Join(dir, "token"))
				timeout *= 4
				continue
			}
			return outcome{timedOut: true, fails: []Fail{mk("timeout",
				fmt.Sprintf("gocc did not terminate within %s (attempt %d, %s of CPU time used)", timeout, attempt, cpu.Round(10*time.Millisecond)), "")}}
		}
		if err != nil {
			return outcome{fails: []Fail{mk("gocc-error",
				fmt.Sprintf("gocc failed after %s: %v: %s", wall.Round(time.Millisecond), err, firstLines(buf.String(), 6)), "")}}
		}
		break
	}
	em, err := ReadEmitted(dir)
	if err != nil {
		return outcome{fails: []Fail{mk("parse", "cannot read the emitted tables: "+err.Error(), "")}}
	}
	if wf := em.CheckWF(); len(wf) > 0 {
		out.fails = append(out.fails, mk("wf", strings.Join(wf, "; "), ""))
	}
	if !em.usable() {
		return out
	}
	ref, err := BuildRef(c.G)
	if err != nil {
		out.fails = append(out.fails, mk("internal", "reference construction failed: "+err.Error(), ""))
		return out
	}
	if bf := Bisim(em, ref); bf != nil {
		out.fails = append(out.fails, mk("bisim", bf.Msg, witnessHex(bf.Witness)))
	}
	return out
}

// runGocc runs `gocc g.bnf` in dir. It reports whether the wall-clock limit
// was hit, and the CPU time the child consumed.
func (r *runner) runGocc(dir string, timeout time.Duration, buf *bytes.Buffer) (timedOut bool, cpu, wall time.Duration, err error) {
	ctx, cancel := context.WithTimeout(context.Background(), timeout)
	defer cancel()
	cmd := exec.CommandContext(ctx, r.gocc, "g.bnf")
	cmd.Dir = dir
	// Keep a run-away gocc from eating the machine: it is single threaded apart
	// from the garbage collector, and a soft memory limit makes the collector
	// work instead of letting the heap balloon. Neither changes what gocc emits.
	cmd.Env = append(os.Environ(), "GOMAXPROCS=1", "GOMEMLIMIT=384MiB")
	cmd.Stdout, cmd.Stderr = buf, buf
	cmd.WaitDelay = 2 * time.Second
	start := time.Now()
	err = cmd.Run()
	wall = time.Since(start)
	if cmd.ProcessState != nil {
		cpu = cmd.ProcessState.UserTime() + cmd.ProcessState.SystemTime()
	}
	timedOut = err != nil && ctx.Err() == context.DeadlineExceeded
	return
}

func firstLines(s string, n int) string {
	lines := strings.Split(strings.TrimSpace(s), "\n")
	if len(lines) > n {
		lines = lines[:n]
	}
	return strings.Join(lines, " | ")
}

// ---- sweep -----------------------------------------------------------------

func parseShard(s string) (int, int, error) {
	parts := strings.Split(s, "/")
	if len(parts) != 2 {
		return 0, 0, fmt.Errorf("bad -shard %q (want i/n)", s)
	}
	i, err1 := strconv.Atoi(parts[0])
	n, err2 := strconv.Atoi(parts[1])
	if err1 != nil || err2 != nil || n < 1 || i < 0 || i > n {
		return 0, 0, fmt.Errorf("bad -shard %q (want i/n with 0 <= i < n; i == n is taken as 0)", s)
	}
	return i % n, n, nil
}

func shardOf(id string, n int) int {
	h := fnv.New32a()
	h.Write([]byte(id))
	return int(h.Sum32() % uint32(n))
}

func cmdSweep(args []string) int {
	fs := flag.NewFlagSet("sweep", flag.ExitOnError)
	gocc := fs.String("gocc", "", "path to the gocc binary")
	scope := fs.String("scope", "quick", "quick or thorough")
	seed := fs.Int64("seed", 1, "permutes the order in which cases are run (not the set of cases)")
	shard := fs.String("shard", "0/1", "i/n: run only the cases of shard i (0 <= i < n)")
	outPath := fs.String("out", "", "result file (JSON); '-' or empty = stdout")
	only := fs.String("only", "", "re-run only the case with this id")
	workers := fs.Int("j", runtime.NumCPU(), "number of concurrent gocc runs")
	timeout := fs.Duration("timeout", 10*time.Second, "gocc timeout per case")
	maxTimeouts := fs.Int("max-timeouts", 150, "abort the sweep after this many timeouts")
	tmp := fs.String("tmp", "", "scratch directory (default $TMPDIR, else /tmp)")
	expand := fs.Bool("expand-regdefs", false, "self-check of the reference: run gocc on the macro-expanded grammar (no regular definitions left) and compare with the reference of the ORIGINAL grammar; expected: no failures")
	cpuprofile := fs.String("cpuprofile", "", "write a CPU profile of lexref itself to this file")
	skipNullable := fs.Bool("skip-nullable-bodies", false, "leave out the grammars in which a repetition body can match the empty string (gocc before 73a37d1 hangs on them); the nullable family is always run")
	fs.Parse(args)
	if *cpuprofile != "" {
		f, err := os.Create(*cpuprofile)
		if err == nil {
			pprof.StartCPUProfile(f)
			defer pprof.StopCPUProfile()
		}
	}
	if *gocc == "" {
		fmt.Fprintln(os.Stderr, "lexref sweep: -gocc is required")
		return 2
	}
	goccAbs, err := filepath.Abs(*gocc)
	if err != nil {
		fmt.Fprintln(os.Stderr, err)
		return 2
	}
	if st, err := os.Stat(goccAbs); err != nil || st.IsDir() {
		fmt.Fprintf(os.Stderr, "lexref sweep: gocc binary %s not found\n", goccAbs)
		return 2
	}
	si, sn, err := parseShard(*shard)
	if err != nil {
		fmt.Fprintln(os.Stderr, err)
		return 2
	}
	t0 := time.Now()
	all, stats, err := Enumerate(*scope, *skipNullable)
	if err != nil {
		fmt.Fprintln(os.Stderr, err)
		return 2
	}
	res := &Result{Scope: *scope, Seed: *seed, Shard: fmt.Sprintf("%d/%d", si, sn), Gocc: goccAbs,
		FailsByKind: map[string]int{}, FailsByFamily: map[string]int{},
		ScopeCases: len(all), ScopeGenerated: stats.Generated, ScopeDuplicates: stats.Duplicates,
		ScopeNullableRep: stats.NullableRep, ScopeSkippedNull: stats.SkippedNullable, ScopePerStratum: stats.PerStratum,
		Fails: []Fail{}, Samples: []Sample{}}

	var todo []Case
	for _, c := range all {
		if *only != "" {
			if c.ID == *only {
				todo = append(todo, c)
			}
			continue
		}
		if shardOf(c.ID, sn) == si {
			todo = append(todo, c)
		}
	}
	if *only != "" && len(todo) == 0 {
		fmt.Fprintf(os.Stderr, "lexref sweep: no case with id %s in scope %s\n", *only, *scope)
		return 2
	}
	// samples: a few cases per stratum, in enumeration order
	perStratum := map[string]int{}
	for _, c := range todo {
		if perStratum[c.Stratum] < 3 {
			perStratum[c.Stratum]++
			res.Samples = append(res.Samples, Sample{ID: c.ID, Stratum: c.Stratum, Grammar: c.Text})
		}
	}
	// the seed permutes the order only
	rng := rand.New(rand.NewSource(*seed))
	rng.Shuffle(len(todo), func(i, j int) { todo[i], todo[j] = todo[j], todo[i] })

	for _, c := range todo {
		if c.G.HasRegdefs() {
			res.WithRegdefs++
		}
		if c.Family {
			res.NullableFamilyCases++
		}
	}
	res.Cases = len(todo)

	r := &runner{gocc: goccAbs, timeout: *timeout, tmp: *tmp, expand: *expand}
	var mu sync.Mutex
	var unexpectedTimeouts int32
	var aborted atomic.Bool
	var notRun, done int32
	record := func(c Case, o outcome) {
		mu.Lock()
		defer mu.Unlock()
		if o.timedOut {
			res.Timeouts++
		}
		res.Fails = append(res.Fails, o.fails...)
	}
	pool := func(cases []Case, n int, wg *sync.WaitGroup) {
		ch := make(chan Case)
		for w := 0; w < n; w++ {
			wg.Add(1)
			go func() {
				defer wg.Done()
				for c := range ch {
					if aborted.Load() {
						atomic.AddInt32(&notRun, 1)
						continue
					}
					o := r.runCase(c)
					if o.timedOut {
						if int(atomic.AddInt32(&unexpectedTimeouts, 1)) >= *maxTimeouts {
							aborted.Store(true)
						}
					}
					record(c, o)
					atomic.AddInt32(&done, 1)
				}
			}()
		}
		wg.Add(1)
		go func() {
			defer wg.Done()
			for _, c := range cases {
				ch <- c
			}
			close(ch)
		}()
	}
	if *workers < 1 {
		*workers = 1
	}
	stopProgress := make(chan struct{})
	go func() {
		tick := time.NewTicker(60 * time.Second)
		defer tick.Stop()
		for {
			select {
			case <-stopProgress:
				return
			case <-tick.C:
				fmt.Fprintf(os.Stderr, "lexref: %d/%d cases after %.0fs\n", atomic.LoadInt32(&done), len(todo), time.Since(t0).Seconds())
			}
		}
	}()
	var wg sync.WaitGroup
	pool(todo, *workers, &wg)
	wg.Wait()
	close(stopProgress)

	if aborted.Load() {
		res.Aborted = fmt.Sprintf("%d timeouts reached; remaining cases not run", *maxTimeouts)
	}
	res.ExpandRegdefs = *expand
	res.NotRun = int(notRun)
	res.StarvedRetries = int(atomic.LoadInt32(&r.retries))
	sort.Slice(res.Fails, func(i, j int) bool {
		if res.Fails[i].ID != res.Fails[j].ID {
			return res.Fails[i].ID < res.Fails[j].ID
		}
		return res.Fails[i].Kind < res.Fails[j].Kind
	})
	for _, f := range res.Fails {
		res.FailsByKind[f.Kind]++
		res.FailsByFamily[f.Kind+"/"+f.Family]++
	}
	res.ElapsedSeconds = time.Since(t0).Seconds()
	data := marshal(res)
	if *outPath == "" || *outPath == "-" {
		os.Stdout.Write(data)
	} else if err := os.WriteFile(*outPath, data, 0o644); err != nil {
		fmt.Fprintln(os.Stderr, err)
		return 2
	}
	fmt.Fprintf(os.Stderr, "lexref: scope=%s shard=%s cases=%d with_regdefs=%d timeouts=%d fails=%d %v in %.1fs\n",
		res.Scope, res.Shard, res.Cases, res.WithRegdefs, res.Timeouts, len(res.Fails), res.FailsByFamily, res.ElapsedSeconds)
	// Exit status: 0 = the sweep ran to completion and the result was written
	// (failures, if any, are in the result file: the unchanged gocc already has
	// known ones); 3 = the sweep was cut short.
	if res.Aborted != "" {
		return 3
	}
	return 0
}

// ---- diff ------------------------------------------------------------------

func cmdDiff(args []string) int {
	fs := flag.NewFlagSet("diff", flag.ExitOnError)
	basePath := fs.String("base", "", "result of the sweep on the reference gocc")
	newPath := fs.String("new", "", "result of the sweep on the gocc under test")
	fs.Parse(args)
	load := func(p string) (*Result, error) {
		data, err := os.ReadFile(p)
		if err != nil {
			return nil, err
		}
		r := &Result{}
		return r, json.Unmarshal(data, r)
	}
	base, err := load(*basePath)
	if err != nil {
		fmt.Fprintln(os.Stderr, err)
		return 2
	}
	nw, err := load(*newPath)
	if err != nil {
		fmt.Fprintln(os.Stderr, err)
		return 2
	}
	key := func(f Fail) string { return f.ID + "/" + f.Kind }
	inBase, inNew := map[string]bool{}, map[string]bool{}
	for _, f := range base.Fails {
		inBase[key(f)] = true
	}
	for _, f := range nw.Fails {
		inNew[key(f)] = true
	}
	out := struct {
		BaseCases     int            `json:"base_cases"`
		NewCases      int            `json:"new_cases"`
		NewFails      []Fail         `json:"new_fails"`
		NewByFamily   map[string]int `json:"new_fails_by_family"`
		Disappeared   []Fail         `json:"disappeared_fails"`
		GoneByFamily  map[string]int `json:"disappeared_fails_by_family"`
		ScopeMismatch string         `json:"scope_mismatch,omitempty"`
	}{BaseCases: base.Cases, NewCases: nw.Cases, NewFails: []Fail{}, Disappeared: []Fail{},
		NewByFamily: map[string]int{}, GoneByFamily: map[string]int{}}
	if base.Scope != nw.Scope || base.Shard != nw.Shard || base.Cases != nw.Cases {
		out.ScopeMismatch = fmt.Sprintf("base is %s shard %s (%d cases), new is %s shard %s (%d cases)",
			base.Scope, base.Shard, base.Cases, nw.Scope, nw.Shard, nw.Cases)
	}
	for _, f := range nw.Fails {
		if !inBase[key(f)] {
			out.NewFails = append(out.NewFails, f)
			out.NewByFamily[f.Kind+"/"+f.Family]++
		}
	}
	for _, f := range base.Fails {
		if !inNew[key(f)] {
			out.Disappeared = append(out.Disappeared, f)
			out.GoneByFamily[f.Kind+"/"+f.Family]++
		}
	}
	os.Stdout.Write(marshal(out))
	if len(out.NewFails) > 0 {
		return 1
	}
	return 0
}

// ---- check one grammar file --------------------------------------------------

func cmdCheck(args []string) int {
	fs := flag.NewFlagSet("check", flag.ExitOnError)
	gocc := fs.String("gocc", "", "path to the gocc binary")
	timeout := fs.Duration("timeout", 10*time.Second, "gocc timeout")
	fs.Parse(args)
	if *gocc == "" || fs.NArg() != 1 {
		usage()
	}
	src, err := os.ReadFile(fs.Arg(0))
	if err != nil {
		fmt.Fprintln(os.Stderr, err)
		return 2
	}
	g, err := ParseGrammar(src)
	if err != nil {
		fmt.Fprintln(os.Stderr, "cannot parse grammar:", err)
		return 2
	}
	if err := g.CheckRefs(); err != nil {
		fmt.Fprintln(os.Stderr, "grammar not in scope:", err)
		return 2
	}
	goccAbs, _ := filepath.Abs(*gocc)
	text := string(src)
	c := Case{ID: CaseID(text), Text: text, G: g, Stratum: "file", NullableRep: nullableRepBody(g)}
	r := &runner{gocc: goccAbs, timeout: *timeout}
	o := r.runCase(c)
	out := struct {
		ID     string `json:"id"`
		Family string `json:"family"`
		Fails  []Fail `json:"fails"`
	}{c.ID, g.Family(), o.fails}
	if out.Fails == nil {
		out.Fails = []Fail{}
	}
	os.Stdout.Write(marshal(out))
	if len(o.fails) > 0 {
		return 1
	}
	return 0
}

// ---- list ------------------------------------------------------------------------

func cmdList(args []string) int {
	fs := flag.NewFlagSet("list", flag.ExitOnError)
	scope := fs.String("scope", "quick", "quick or thorough")
	verbose := fs.Bool("v", false, "print every case")
	skipNullable := fs.Bool("skip-nullable-bodies", false, "leave out the grammars in which a repetition body can match the empty string")
	fs.Parse(args)
	all, stats, err := Enumerate(*scope, *skipNullable)
	if err != nil {
		fmt.Fprintln(os.Stderr, err)
		return 2
	}
	if *verbose {
		for _, c := range all {
			fmt.Printf("## %s %s nullable-rep-body=%v\n%s", c.ID, c.Stratum, c.NullableRep, c.Text)
		}
	}
	withReg, nrep := 0, 0
	for _, c := range all {
		if c.G.HasRegdefs() {
			withReg++
		}
		if c.NullableRep {
			nrep++
		}
	}
	fmt.Printf("scope %s: %d cases (%d with regdefs, %d with a nullable repetition body, family included); generated %d, duplicates %d, nullable-body included %d, skipped %d\n",
		*scope, len(all), withReg, nrep, stats.Generated, stats.Duplicates, stats.NullableRep, stats.SkippedNullable)
	var names []string
	for n := range stats.PerStratum {
		names = append(names, n)
	}
	sort.Strings(names)
	for _, n := range names {
		fmt.Printf("  %-18s %d\n", n, stats.PerStratum[n])
	}
	return 0
}

func marshal(v any) []byte {
	var buf bytes.Buffer
	enc := json.NewEncoder(&buf)
	enc.SetEscapeHTML(false)
	enc.SetIndent("", "  ")
	if err := enc.Encode(v); err != nil {
		panic(err)
	}
	return buf.Bytes()
}
