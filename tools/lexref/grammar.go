package main

import (
	"crypto/sha256"
	"encoding/hex"
	"fmt"
	"strings"
)

// ---------------------------------------------------------------------------
// Abstract syntax of the lexical part of a gocc grammar (our own, independent
// of gocc's internal/ast).
// ---------------------------------------------------------------------------

type TermKind int

const (
	TChar  TermKind = iota // 'a'
	TRange                 // 'a'-'c'
	TDot                   // .
	TRef                   // _r1
	TOpt                   // [ p ]
	TRep                   // { p }
	TGroup                 // ( p )
	TSlot                  // leaf placeholder, used only by the shape enumerator
)

type Term struct {
	Kind   TermKind
	Lo, Hi rune   // TChar: Lo==Hi ; TRange: Lo..Hi
	Text   string // source spelling for TChar / TRange (e.g. `'\x61'`, `'a'-'c'`)
	Ref    string // TRef: name of the regular definition
	Sub    *Pattern
}

// Pattern is a list of alternatives, each alternative a sequence of terms.
type Pattern struct {
	Alts [][]*Term
}

type ProdKind int

const (
	PTok ProdKind = iota // token:   t1
	PIgn                 // ignored: !i1
	PReg                 // regular definition: _r1
)

type Prod struct {
	Name string // including the leading '!' or '_'
	Kind ProdKind
	Pat  *Pattern
}

type Grammar struct {
	Prods []Prod
	// Syntax part (optional): a single production  S : <SynTok> "lit1" "lit2" ... ;
	SynTok string
	Lits   []string
}

func (t *Term) String() string {
	switch t.Kind {
	case TChar, TRange:
		return t.Text
	case TDot:
		return "."
	case TRef:
		return t.Ref
	case TOpt:
		return "[ " + t.Sub.String() + " ]"
	case TRep:
		return "{ " + t.Sub.String() + " }"
	case TGroup:
		return "( " + t.Sub.String() + " )"
	case TSlot:
		return "#"
	}
	return "?"
}

func (p *Pattern) String() string {
	var alts []string
	for _, a := range p.Alts {
		var ts []string
		for _, t := range a {
			ts = append(ts, t.String())
		}
		alts = append(alts, strings.Join(ts, " "))
	}
	return strings.Join(alts, " | ")
}

// Text renders the grammar in gocc's BNF syntax, one production per line.
func (g *Grammar) Text() string {
	var sb strings.Builder
	for _, p := range g.Prods {
		fmt.Fprintf(&sb, "%s : %s ;\n", p.Name, p.Pat.String())
	}
	if len(g.Lits) > 0 || g.SynTok != "" {
		sb.WriteString("S :")
		if g.SynTok != "" {
			sb.WriteString(" " + g.SynTok)
		}
		for _, l := range g.Lits {
			fmt.Fprintf(&sb, " %q", l)
		}
		sb.WriteString(" ;\n")
	}
	return sb.String()
}

// CaseID is the stable identifier of a case: a hash of the grammar text.
func CaseID(text string) string {
	h := sha256.Sum256([]byte(text))
	return hex.EncodeToString(h[:6])
}

func (g *Grammar) regdefs() map[string]*Pattern {
	m := map[string]*Pattern{}
	for _, p := range g.Prods {
		if p.Kind == PReg {
			m[p.Name] = p.Pat
		}
	}
	return m
}

func (g *Grammar) HasRegdefs() bool {
	for _, p := range g.Prods {
		if p.Kind == PReg {
			return true
		}
	}
	return false
}

// walkTerms calls f on every term of p (not following regdef references).
func walkTerms(p *Pattern, f func(*Term)) {
	for _, a := range p.Alts {
		for _, t := range a {
			f(t)
			if t.Sub != nil {
				walkTerms(t.Sub, f)
			}
		}
	}
}

// CheckRefs reports an error if a regular definition is undefined, defined
// twice, or (directly or indirectly) recursive.
func (g *Grammar) CheckRefs() error {
	defs := map[string]*Pattern{}
	names := map[string]bool{}
	for _, p := range g.Prods {
		if names[p.Name] {
			return fmt.Errorf("production %s declared twice", p.Name)
		}
		names[p.Name] = true
		if p.Kind == PReg {
			defs[p.Name] = p.Pat
		}
	}
	state := map[string]int{} // 1 = on stack, 2 = done
	var visit func(p *Pattern) error
	visit = func(p *Pattern) error {
		var err error
		walkTerms(p, func(t *Term) {
			if err != nil || t.Kind != TRef {
				return
			}
			d, ok := defs[t.Ref]
			if !ok {
				err = fmt.Errorf("undefined regular definition %s", t.Ref)
				return
			}
			switch state[t.Ref] {
			case 1:
				err = fmt.Errorf("recursive regular definition %s", t.Ref)
			case 2:
			default:
				state[t.Ref] = 1
				err = visit(d)
				state[t.Ref] = 2
			}
		})
		return err
	}
	for _, p := range g.Prods {
		if p.Kind == PReg {
			if state[p.Name] == 0 {
				state[p.Name] = 1
				if err := visit(p.Pat); err != nil {
					return err
				}
				state[p.Name] = 2
			}
		} else if err := visit(p.Pat); err != nil {
			return err
		}
	}
	return nil
}

// nullable tells whether pattern p can match the empty string. Regular
// definitions are followed when followRefs is set, otherwise a reference is
// taken to be non-nullable. The grammar must be free of recursion.
func nullablePat(p *Pattern, defs map[string]*Pattern, followRefs bool) bool {
	for _, a := range p.Alts {
		all := true
		for _, t := range a {
			if !nullableTerm(t, defs, followRefs) {
				all = false
				break
			}
		}
		if all {
			return true
		}
	}
	return false
}

func nullableTerm(t *Term, defs map[string]*Pattern, followRefs bool) bool {
	switch t.Kind {
	case TOpt, TRep:
		return true
	case TGroup:
		return nullablePat(t.Sub, defs, followRefs)
	case TRef:
		if !followRefs {
			return false
		}
		return nullablePat(defs[t.Ref], defs, followRefs)
	}
	return false
}

// HasNullableBody reports whether some option (wantOpt) or repetition
// (wantRep) that is reachable from a token or ignored-token production has a
// body that can match the empty string. followRefs selects whether a reference
// to a nullable regular definition counts as nullable.
func (g *Grammar) HasNullableBody(wantOpt, wantRep, followRefs bool) bool {
	defs := g.regdefs()
	found := false
	visited := map[string]bool{}
	var visit func(p *Pattern)
	visit = func(p *Pattern) {
		walkTerms(p, func(t *Term) {
			switch t.Kind {
			case TOpt:
				if wantOpt && nullablePat(t.Sub, defs, followRefs) {
					found = true
				}
			case TRep:
				if wantRep && nullablePat(t.Sub, defs, followRefs) {
					found = true
				}
			case TRef:
				if d, ok := defs[t.Ref]; ok && !visited[t.Ref] {
					visited[t.Ref] = true
					visit(d)
				}
			}
		})
	}
	for _, p := range g.Prods {
		if p.Kind != PReg {
			visit(p.Pat)
		}
	}
	return found
}

// regdefUse summarises how the token / ignored-token patterns use regular
// definitions (transitively): number of reference occurrences per definition
// after macro expansion, whether some occurrence is inside a repetition, and
// whether some used definition is nullable.
type regdefUse struct {
	Uses          map[string]int
	InRepetition  bool
	NullableUsed  bool
	AnyUsed       bool
	MaxUsesOfSame int
}

func (g *Grammar) RegdefUse() regdefUse {
	defs := g.regdefs()
	u := regdefUse{Uses: map[string]int{}}
	var visit func(p *Pattern, inRep bool)
	visit = func(p *Pattern, inRep bool) {
		for _, a := range p.Alts {
			for _, t := range a {
				switch t.Kind {
				case TRef:
					u.Uses[t.Ref]++
					u.AnyUsed = true
					if inRep {
						u.InRepetition = true
					}
					if d, ok := defs[t.Ref]; ok {
						if nullablePat(d, defs, true) {
							u.NullableUsed = true
						}
						visit(d, inRep)
					}
				case TRep:
					visit(t.Sub, true)
				case TOpt, TGroup:
					visit(t.Sub, inRep)
				}
			}
		}
	}
	for _, p := range g.Prods {
		if p.Kind != PReg {
			visit(p.Pat, false)
		}
	}
	for _, n := range u.Uses {
		if n > u.MaxUsesOfSame {
			u.MaxUsesOfSame = n
		}
	}
	return u
}

// Classify assigns a failing case to a family, as required by the task
// statement, and says why.
//
//	"no-regdef"        the grammar has no regular definition
//	"regdef-nullable"  some used regular definition can match the empty string
//	                   (known baseline deviation (b))
//	"regdef-shared"    some regular definition is active from two different start
//	                   offsets at the same time (known baseline deviation (a)).
//	                   Decided semantically on the reference automaton
//	                   (RegdefOverlap); when that search is cut off by its bounds
//	                   the syntactic criterion of the task statement is used: a
//	                   definition referenced at two or more positions, or inside
//	                   a repetition.
//	"other"            anything else
func (g *Grammar) Classify() (family, reason string) {
	if !g.HasRegdefs() {
		return "no-regdef", ""
	}
	u := g.RegdefUse()
	if !u.AnyUsed {
		return "other", "no regular definition is used by a token or ignored token"
	}
	if u.NullableUsed {
		return "regdef-nullable", "a used regular definition can match the empty string"
	}
	ref, err := BuildRef(g)
	if err != nil {
		return "other", "reference construction failed: " + err.Error()
	}
	overlap, name, complete := ref.RegdefOverlap(12, 20000)
	if overlap {
		return "regdef-shared", "positions inside " + name + " are active with two different start offsets on some input"
	}
	if !complete && (u.MaxUsesOfSame >= 2 || u.InRepetition) {
		return "regdef-shared", "syntactic criterion (definition referenced twice or inside a repetition); overlap search inconclusive"
	}
	return "other", "no regular definition is ever active from two different start offsets"
}

// Family is Classify without the reason.
func (g *Grammar) Family() string {
	f, _ := g.Classify()
	return f
}

// Expanded returns the grammar with every reference to a regular definition
// replaced by the parenthesised pattern of the definition, and the regular
// definitions removed. By the macro semantics it denotes the same lexer; the
// sweep's -expand-regdefs self-check feeds it to gocc instead of the original.
func (g *Grammar) Expanded() *Grammar {
	defs := g.regdefs()
	var expPat func(p *Pattern) *Pattern
	expPat = func(p *Pattern) *Pattern {
		out := &Pattern{}
		for _, a := range p.Alts {
			var na []*Term
			for _, t := range a {
				switch t.Kind {
				case TRef:
					na = append(na, &Term{Kind: TGroup, Sub: expPat(defs[t.Ref])})
				case TOpt, TRep, TGroup:
					na = append(na, &Term{Kind: t.Kind, Sub: expPat(t.Sub)})
				default:
					c := *t
					na = append(na, &c)
				}
			}
			out.Alts = append(out.Alts, na)
		}
		return out
	}
	out := &Grammar{SynTok: g.SynTok, Lits: g.Lits}
	for _, p := range g.Prods {
		if p.Kind != PReg {
			out.Prods = append(out.Prods, Prod{Name: p.Name, Kind: p.Kind, Pat: expPat(p.Pat)})
		}
	}
	return out
}
