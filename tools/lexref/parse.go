package main

import (
	"fmt"
	"strconv"
	"strings"
	"unicode"
	"unicode/utf8"
)

// A small reader for the subset of gocc's BNF that this tool writes (and a
// bit more, so that hand-written examples can be checked with `lexref check`):
// lexical productions with char literals (all Go-style escapes), ranges, '.',
// regular-definition references, [ ] { } ( ) and |, followed by an optional
// syntax part from which only the string literals are extracted.

type bnfTok struct {
	kind string // "id", "char", "string", "punct", "eof"
	text string
	val  rune // for char
	str  string
}

type bnfLexer struct {
	src []byte
	pos int
}

func (l *bnfLexer) next() (bnfTok, error) {
	for l.pos < len(l.src) {
		c := l.src[l.pos]
		if c == ' ' || c == '\t' || c == '\n' || c == '\r' {
			l.pos++
			continue
		}
		if c == '/' && l.pos+1 < len(l.src) && l.src[l.pos+1] == '/' {
			for l.pos < len(l.src) && l.src[l.pos] != '\n' {
				l.pos++
			}
			continue
		}
		if c == '/' && l.pos+1 < len(l.src) && l.src[l.pos+1] == '*' {
			end := strings.Index(string(l.src[l.pos+2:]), "*/")
			if end < 0 {
				return bnfTok{}, fmt.Errorf("unterminated comment")
			}
			l.pos += end + 4
			continue
		}
		break
	}
	if l.pos >= len(l.src) {
		return bnfTok{kind: "eof"}, nil
	}
	c := l.src[l.pos]
	switch {
	case c == '\'':
		// char literal: find closing quote honouring backslash
		i := l.pos + 1
		for i < len(l.src) {
			if l.src[i] == '\\' {
				i += 2
				continue
			}
			if l.src[i] == '\'' {
				break
			}
			i++
		}
		if i >= len(l.src) {
			return bnfTok{}, fmt.Errorf("unterminated char literal")
		}
		text := string(l.src[l.pos : i+1])
		l.pos = i + 1
		v, err := charLitValue(text)
		if err != nil {
			return bnfTok{}, err
		}
		return bnfTok{kind: "char", text: text, val: v}, nil
	case c == '"':
		i := l.pos + 1
		for i < len(l.src) {
			if l.src[i] == '\\' {
				i += 2
				continue
			}
			if l.src[i] == '"' {
				break
			}
			i++
		}
		if i >= len(l.src) {
			return bnfTok{}, fmt.Errorf("unterminated string literal")
		}
		text := string(l.src[l.pos : i+1])
		l.pos = i + 1
		s, err := strconv.Unquote(text)
		if err != nil {
			return bnfTok{}, fmt.Errorf("bad string literal %s: %v", text, err)
		}
		return bnfTok{kind: "string", text: text, str: s}, nil
	case c == '`':
		i := l.pos + 1
		for i < len(l.src) && l.src[i] != '`' {
			i++
		}
		if i >= len(l.src) {
			return bnfTok{}, fmt.Errorf("unterminated raw string literal")
		}
		text := string(l.src[l.pos : i+1])
		l.pos = i + 1
		return bnfTok{kind: "string", text: text, str: text[1 : len(text)-1]}, nil
	case c == '<' && l.pos+1 < len(l.src) && l.src[l.pos+1] == '<':
		end := strings.Index(string(l.src[l.pos:]), ">>")
		if end < 0 {
			return bnfTok{}, fmt.Errorf("unterminated << >>")
		}
		text := string(l.src[l.pos : l.pos+end+2])
		l.pos += end + 2
		return bnfTok{kind: "sdt", text: text}, nil
	case c == '!' || c == '_' || unicode.IsLetter(rune(c)):
		i := l.pos + 1
		for i < len(l.src) && (l.src[i] == '_' || unicode.IsLetter(rune(l.src[i])) || unicode.IsDigit(rune(l.src[i]))) {
			i++
		}
		text := string(l.src[l.pos:i])
		l.pos = i
		return bnfTok{kind: "id", text: text}, nil
	case strings.ContainsRune(":;|.-[]{}()", rune(c)):
		l.pos++
		return bnfTok{kind: "punct", text: string(c)}, nil
	}
	return bnfTok{}, fmt.Errorf("unexpected character %q at offset %d", c, l.pos)
}

// charLitValue decodes a gocc char literal such as 'a', '\n', '\x61', '\141',
// 'é', '\U0001F600'.
func charLitValue(text string) (rune, error) {
	if len(text) < 3 || text[0] != '\'' || text[len(text)-1] != '\'' {
		return 0, fmt.Errorf("bad char literal %s", text)
	}
	body := text[1 : len(text)-1]
	if body[0] != '\\' {
		r, n := utf8.DecodeRuneInString(body)
		if n != len(body) || r == utf8.RuneError {
			return 0, fmt.Errorf("bad char literal %s", text)
		}
		return r, nil
	}
	if len(body) < 2 {
		return 0, fmt.Errorf("bad char literal %s", text)
	}
	switch body[1] {
	case 'a':
		return '\a', nil
	case 'b':
		return '\b', nil
	case 'f':
		return '\f', nil
	case 'n':
		return '\n', nil
	case 'r':
		return '\r', nil
	case 't':
		return '\t', nil
	case 'v':
		return '\v', nil
	case '\\':
		return '\\', nil
	case '\'':
		return '\'', nil
	case '"':
		return '"', nil
	case 'x', 'u', 'U':
		want := map[byte]int{'x': 2, 'u': 4, 'U': 8}[body[1]]
		if len(body) != 2+want {
			return 0, fmt.Errorf("bad char literal %s", text)
		}
		v, err := strconv.ParseUint(body[2:], 16, 32)
		if err != nil {
			return 0, fmt.Errorf("bad char literal %s", text)
		}
		return rune(v), nil
	default:
		if len(body) == 4 {
			v, err := strconv.ParseUint(body[1:], 8, 32)
			if err == nil {
				return rune(v), nil
			}
		}
	}
	return 0, fmt.Errorf("bad char literal %s", text)
}

type bnfParser struct {
	lx  *bnfLexer
	tok bnfTok
}

func (p *bnfParser) advance() error {
	t, err := p.lx.next()
	if err != nil {
		return err
	}
	p.tok = t
	return nil
}

func (p *bnfParser) isPunct(s string) bool { return p.tok.kind == "punct" && p.tok.text == s }

// ParseGrammar reads a grammar in gocc BNF (subset, see above).
func ParseGrammar(src []byte) (*Grammar, error) {
	p := &bnfParser{lx: &bnfLexer{src: src}}
	if err := p.advance(); err != nil {
		return nil, err
	}
	g := &Grammar{}
	inSyntax := false
	for p.tok.kind != "eof" {
		if p.tok.kind == "sdt" { // file header
			if err := p.advance(); err != nil {
				return nil, err
			}
			inSyntax = true
			continue
		}
		if p.tok.kind != "id" {
			return nil, fmt.Errorf("expected production name, got %q", p.tok.text)
		}
		name := p.tok.text
		if err := p.advance(); err != nil {
			return nil, err
		}
		if !p.isPunct(":") {
			return nil, fmt.Errorf("expected ':' after %s", name)
		}
		if err := p.advance(); err != nil {
			return nil, err
		}
		first, _ := utf8.DecodeRuneInString(name)
		if unicode.IsUpper(first) {
			inSyntax = true
		}
		if inSyntax {
			// only string literals (and the first token id) matter
			for !p.isPunct(";") {
				if p.tok.kind == "eof" {
					return nil, fmt.Errorf("unterminated syntax production %s", name)
				}
				if p.tok.kind == "string" {
					dup := false
					for _, l := range g.Lits {
						if l == p.tok.str {
							dup = true
						}
					}
					if !dup {
						g.Lits = append(g.Lits, p.tok.str)
					}
				}
				if p.tok.kind == "id" && g.SynTok == "" {
					f, _ := utf8.DecodeRuneInString(p.tok.text)
					if unicode.IsLower(f) && p.tok.text != "empty" && p.tok.text != "error" {
						g.SynTok = p.tok.text
					}
				}
				if err := p.advance(); err != nil {
					return nil, err
				}
			}
			if err := p.advance(); err != nil {
				return nil, err
			}
			continue
		}
		pat, err := p.parsePattern()
		if err != nil {
			return nil, fmt.Errorf("in %s: %v", name, err)
		}
		if !p.isPunct(";") {
			return nil, fmt.Errorf("in %s: expected ';', got %q", name, p.tok.text)
		}
		if err := p.advance(); err != nil {
			return nil, err
		}
		kind := PTok
		if name[0] == '!' {
			kind = PIgn
		} else if name[0] == '_' {
			kind = PReg
		}
		g.Prods = append(g.Prods, Prod{Name: name, Kind: kind, Pat: pat})
	}
	return g, nil
}

func (p *bnfParser) parsePattern() (*Pattern, error) {
	pat := &Pattern{}
	for {
		var alt []*Term
		for {
			t, err := p.parseTerm()
			if err != nil {
				return nil, err
			}
			if t == nil {
				break
			}
			alt = append(alt, t)
		}
		if len(alt) == 0 {
			return nil, fmt.Errorf("empty alternative")
		}
		pat.Alts = append(pat.Alts, alt)
		if p.isPunct("|") {
			if err := p.advance(); err != nil {
				return nil, err
			}
			continue
		}
		return pat, nil
	}
}

func (p *bnfParser) parseTerm() (*Term, error) {
	switch {
	case p.tok.kind == "char":
		lo := p.tok
		if err := p.advance(); err != nil {
			return nil, err
		}
		if p.isPunct("-") {
			if err := p.advance(); err != nil {
				return nil, err
			}
			if p.tok.kind != "char" {
				return nil, fmt.Errorf("expected char literal after '-'")
			}
			hi := p.tok
			if err := p.advance(); err != nil {
				return nil, err
			}
			return &Term{Kind: TRange, Lo: lo.val, Hi: hi.val, Text: lo.text + "-" + hi.text}, nil
		}
		return &Term{Kind: TChar, Lo: lo.val, Hi: lo.val, Text: lo.text}, nil
	case p.isPunct("."):
		if err := p.advance(); err != nil {
			return nil, err
		}
		return &Term{Kind: TDot}, nil
	case p.tok.kind == "id" && p.tok.text[0] == '_':
		name := p.tok.text
		if err := p.advance(); err != nil {
			return nil, err
		}
		return &Term{Kind: TRef, Ref: name}, nil
	case p.isPunct("["), p.isPunct("{"), p.isPunct("("):
		open := p.tok.text
		closeP := map[string]string{"[": "]", "{": "}", "(": ")"}[open]
		kind := map[string]TermKind{"[": TOpt, "{": TRep, "(": TGroup}[open]
		if err := p.advance(); err != nil {
			return nil, err
		}
		sub, err := p.parsePattern()
		if err != nil {
			return nil, err
		}
		if !p.isPunct(closeP) {
			return nil, fmt.Errorf("expected %q, got %q", closeP, p.tok.text)
		}
		if err := p.advance(); err != nil {
			return nil, err
		}
		return &Term{Kind: kind, Sub: sub}, nil
	}
	return nil, nil
}
