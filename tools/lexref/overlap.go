package main

import (
	"sort"
	"strconv"
	"strings"
)

// ---------------------------------------------------------------------------
// Classification aid (not part of the oracle).
//
// Known baseline family (a): "one regular definition used from two
// simultaneously active positions started at different offsets".  To recognise
// it semantically we re-run the reference subset construction with every
// position annotated by the input offsets at which the enclosing
// regular-definition instances were entered (kept as ages = runes read since
// entry) and report whether, on some input of bounded length, two active
// positions lie inside the same regular definition (by NAME, whatever the
// instance) with different entry offsets.
// ---------------------------------------------------------------------------

type agedPos struct {
	node int
	ages []int // one per enclosing instance, outermost first
}

func (a *RefAutomaton) instChain(node int) []int {
	var rev []int
	for i := a.nodeInst[node]; i >= 0; i = a.instParent[i] {
		rev = append(rev, i)
	}
	out := make([]int, len(rev))
	for i := range rev {
		out[i] = rev[len(rev)-1-i]
	}
	return out
}

func agedKey(p agedPos) string {
	var sb strings.Builder
	sb.WriteString(strconv.Itoa(p.node))
	for _, g := range p.ages {
		sb.WriteByte(':')
		sb.WriteString(strconv.Itoa(g))
	}
	return sb.String()
}

// agedMove computes the annotation of `to` when reached from `from` by an
// edge: instances common to both keep their age, newly entered ones start at 0.
func (a *RefAutomaton) agedMove(from agedPos, to int, inc int) agedPos {
	fc := a.instChain(from.node)
	tc := a.instChain(to)
	ages := make([]int, len(tc))
	for i, inst := range tc {
		if i < len(fc) && fc[i] == inst {
			ages[i] = from.ages[i] + inc
		} else {
			ages[i] = 0
			fc = nil // everything below a fresh instance is fresh too
		}
	}
	return agedPos{node: to, ages: ages}
}

func (a *RefAutomaton) agedClosure(seed []agedPos) []agedPos {
	seen := map[string]bool{}
	var all []agedPos
	stack := append([]agedPos(nil), seed...)
	for len(stack) > 0 {
		p := stack[len(stack)-1]
		stack = stack[:len(stack)-1]
		k := agedKey(p)
		if seen[k] {
			continue
		}
		seen[k] = true
		all = append(all, p)
		for _, t := range a.eps[p.node] {
			stack = append(stack, a.agedMove(p, t, 0))
		}
	}
	var out []agedPos
	for _, p := range all {
		if len(a.edges[p.node]) > 0 {
			out = append(out, p)
		} else if _, ok := a.finalOf[p.node]; ok {
			out = append(out, p)
		}
	}
	sort.Slice(out, func(i, j int) bool { return agedKey(out[i]) < agedKey(out[j]) })
	return out
}

// RegdefOverlap explores inputs of at most maxDepth runes (and at most
// maxStates annotated states). overlap: two active positions inside the same
// regular definition entered at different offsets were seen; the name of the
// definition is returned. complete: the whole annotated state space was
// explored without hitting a bound.
func (a *RefAutomaton) RegdefOverlap(maxDepth, maxStates int) (overlap bool, name string, complete bool) {
	var starts []agedPos
	for _, p := range a.patterns {
		starts = append(starts, agedPos{node: p.start})
	}
	type st struct {
		ps    []agedPos
		depth int
	}
	keyOf := func(ps []agedPos) string {
		var sb strings.Builder
		for _, p := range ps {
			sb.WriteString(agedKey(p))
			sb.WriteByte(',')
		}
		return sb.String()
	}
	first := a.agedClosure(starts)
	seen := map[string]bool{keyOf(first): true}
	queue := []st{{first, 0}}
	complete = true
	for len(queue) > 0 {
		cur := queue[0]
		queue = queue[1:]
		// overlap check
		ageOf := map[string]int{}
		for _, p := range cur.ps {
			if len(a.edges[p.node]) == 0 {
				continue
			}
			for i, inst := range a.instChain(p.node) {
				n := a.instName[inst]
				if g, ok := ageOf[n]; ok && g != p.ages[i] {
					return true, n, false
				}
				ageOf[n] = p.ages[i]
			}
		}
		if cur.depth >= maxDepth {
			complete = false
			continue
		}
		var bounds []rune
		for _, p := range cur.ps {
			for _, e := range a.edges[p.node] {
				if e.kind == symRange {
					bounds = append(bounds, e.lo, e.hi+1)
				}
			}
		}
		for _, cl := range classes(bounds) {
			r := cl[0]
			var specific, dots []agedPos
			for _, p := range cur.ps {
				for _, e := range a.edges[p.node] {
					switch {
					case e.kind == symRange && e.lo <= r && r <= e.hi:
						specific = append(specific, a.agedMove(p, e.to, 1))
					case e.kind == symDot:
						dots = append(dots, a.agedMove(p, e.to, 1))
					}
				}
			}
			adv := specific
			if len(adv) == 0 {
				adv = dots
			}
			if len(adv) == 0 {
				continue
			}
			next := a.agedClosure(adv)
			k := keyOf(next)
			if seen[k] {
				continue
			}
			if len(seen) >= maxStates {
				complete = false
				continue
			}
			seen[k] = true
			queue = append(queue, st{next, cur.depth + 1})
		}
	}
	return false, "", complete
}
