package main

import (
	"encoding/hex"
	"fmt"
	"sort"
	"strings"
)

// ---------------------------------------------------------------------------
// Bisimulation check between the emitted DFA and the reference automaton.
// Both are deterministic, so bisimilarity from the start states is language
// (more precisely: behaviour) equivalence on all rune strings.
// ---------------------------------------------------------------------------

type pairKey struct{ e, r int }

type pairInfo struct {
	parent pairKey
	via    rune
	depth  int
	root   bool
}

type BisimFailure struct {
	Witness []rune
	Msg     string
}

const maxPairs = 200000

// classes returns one representative per class of the common refinement of
// the two rune partitions given by interval end points.
func classes(bounds []rune) [][2]rune {
	bs := append([]rune{0, MaxRune + 1}, bounds...)
	sort.Slice(bs, func(i, j int) bool { return bs[i] < bs[j] })
	var out [][2]rune
	prev := rune(-1)
	var uniq []rune
	for _, b := range bs {
		if b < 0 || b > MaxRune+1 {
			continue
		}
		if b != prev {
			uniq = append(uniq, b)
			prev = b
		}
	}
	for i := 0; i+1 < len(uniq); i++ {
		out = append(out, [2]rune{uniq[i], uniq[i+1] - 1})
	}
	return out
}

// representative picks a rune of the class that is pleasant in a witness:
// printable and encodable in UTF-8 when the class has one.
func representative(lo, hi rune) rune {
	nice := func(c rune) bool {
		return lo <= c && c <= hi && c >= 0x21 && c != 0x7F && (c < 0xD800 || c > 0xDFFF) && c != 0xFFFD
	}
	for _, c := range []rune{lo, 'x', 0x21, 0xE000, lo + 1} {
		if nice(c) {
			return c
		}
	}
	return lo
}

// Bisim explores pairs breadth-first and returns the first (hence a shortest)
// distinguishing input, or nil when the automata are bisimilar.
func Bisim(em *Emitted, ref *RefAutomaton) *BisimFailure {
	info := map[pairKey]pairInfo{}
	start := pairKey{0, 0}
	info[start] = pairInfo{root: true}
	witness := func(k pairKey, extra ...rune) []rune {
		var rev []rune
		for !info[k].root {
			rev = append(rev, info[k].via)
			k = info[k].parent
		}
		out := make([]rune, 0, len(rev)+len(extra))
		for i := len(rev) - 1; i >= 0; i-- {
			out = append(out, rev[i])
		}
		return append(out, extra...)
	}
	if ev, rv := em.Verdict(0), ref.Verdict(0); ev != rv {
		w := []rune{}
		return &BisimFailure{Witness: w, Msg: describe(em, ref, w)}
	}
	queue := []pairKey{start}
	for len(queue) > 0 {
		k := queue[0]
		queue = queue[1:]
		bounds := append(em.Bounds(k.e), ref.Bounds(k.r)...)
		for _, cl := range classes(bounds) {
			r := representative(cl[0], cl[1])
			en := em.Step(k.e, r)
			rn := ref.Step(k.r, r)
			if (en < 0) != (rn < 0) {
				w := witness(k, r)
				return &BisimFailure{Witness: w, Msg: describe(em, ref, w)}
			}
			if en < 0 {
				continue
			}
			nk := pairKey{en, rn}
			if _, seen := info[nk]; seen {
				continue
			}
			info[nk] = pairInfo{parent: k, via: r, depth: info[k].depth + 1}
			if em.Verdict(en) != ref.Verdict(rn) {
				w := witness(nk)
				return &BisimFailure{Witness: w, Msg: describe(em, ref, w)}
			}
			if len(info) > maxPairs {
				return &BisimFailure{Witness: witness(nk), Msg: fmt.Sprintf("exploration limit of %d state pairs exceeded", maxPairs)}
			}
			queue = append(queue, nk)
		}
	}
	return nil
}

func runeList(w []rune) string {
	if len(w) == 0 {
		return "the empty input"
	}
	var parts []string
	for _, r := range w {
		parts = append(parts, fmt.Sprintf("U+%04X", r))
	}
	return fmt.Sprintf("input %q (%s)", string(w), strings.Join(parts, " "))
}

// describe says what each side does on the witness.
func describe(em *Emitted, ref *RefAutomaton, w []rune) string {
	var sb strings.Builder
	fmt.Fprintf(&sb, "on %s: ", runeList(w))
	// emitted
	s := 0
	path := []string{"S0"}
	stuckAt := -1
	for i, r := range w {
		n := em.Step(s, r)
		if n < 0 {
			stuckAt = i
			break
		}
		s = n
		path = append(path, fmt.Sprintf("S%d", s))
	}
	if stuckAt >= 0 {
		fmt.Fprintf(&sb, "emitted DFA %s has no transition on rune #%d (U+%04X), verdict of last state %s; ", strings.Join(path, "->"), stuckAt+1, w[stuckAt], em.Verdict(s))
	} else {
		fmt.Fprintf(&sb, "emitted DFA %s reads all of it, verdict %s; ", strings.Join(path, "->"), em.Verdict(s))
	}
	consumed, last := ref.Run(w)
	if consumed < len(w) {
		fmt.Fprintf(&sb, "reference has no transition on rune #%d (U+%04X), verdict of last state %s", consumed+1, w[consumed], ref.Verdict(last))
	} else {
		fmt.Fprintf(&sb, "reference reads all of it, verdict %s", ref.Verdict(last))
	}
	return sb.String()
}

func witnessHex(w []rune) string {
	return hex.EncodeToString([]byte(string(w)))
}
