package main

import (
	"fmt"
	"go/ast"
	"go/parser"
	"go/token"
	"os"
	"path/filepath"
	"strconv"
)

// ---------------------------------------------------------------------------
// Reading back the tables gocc emitted, without compiling them.
// ---------------------------------------------------------------------------

type emCase struct {
	lo, hi rune
	target int
}

type emState struct {
	cases      []emCase
	hasDefault bool
	defTarget  int
	// value returned after the switch (normally NoState = -1); absent when the
	// switch has a default arm.
	hasTail    bool
	tailTarget int
}

type emAction struct {
	Accept int
	Ignore string
}

type Emitted struct {
	States    []emState
	Actions   []emAction
	TypeMap   []string
	IdMap     map[string]int
	IdMapDups []string // keys that occur twice in the idMap literal
	NumStates int      // the NumStates constant of lexer.go (-1 if not found)
}

const noState = -1

// Step evaluates the emitted transition function of state s on rune r exactly
// as Go would: the first matching case wins, then default, then the statement
// after the switch.
func (e *Emitted) Step(s int, r rune) int {
	st := &e.States[s]
	for _, c := range st.cases {
		if c.lo <= r && r <= c.hi {
			return c.target
		}
	}
	if st.hasDefault {
		return st.defTarget
	}
	if st.hasTail {
		return st.tailTarget
	}
	return noState
}

func (e *Emitted) Bounds(s int) []rune {
	var out []rune
	for _, c := range e.States[s].cases {
		out = append(out, c.lo, c.hi+1)
	}
	return out
}

// Verdict translates an action row to a verdict via the typeMap.
func (e *Emitted) Verdict(s int) Verdict {
	a := e.Actions[s]
	switch {
	case a.Accept == -1:
		return Verdict{Kind: "ignore", Name: a.Ignore}
	case a.Accept == 0:
		return Verdict{Kind: "none"}
	case a.Accept > 0 && a.Accept < len(e.TypeMap):
		return Verdict{Kind: "accept", Name: e.TypeMap[a.Accept]}
	}
	return Verdict{Kind: "accept", Name: fmt.Sprintf("<token number %d outside typeMap>", a.Accept)}
}

func ReadEmitted(dir string) (*Emitted, error) {
	e := &Emitted{NumStates: -1}
	if err := e.readTransitions(filepath.Join(dir, "lexer", "transitiontable.go")); err != nil {
		return nil, fmt.Errorf("transitiontable.go: %v", err)
	}
	if err := e.readActions(filepath.Join(dir, "lexer", "acttab.go")); err != nil {
		return nil, fmt.Errorf("acttab.go: %v", err)
	}
	if err := e.readTokens(filepath.Join(dir, "token", "token.go")); err != nil {
		return nil, fmt.Errorf("token.go: %v", err)
	}
	if err := e.readNumStates(filepath.Join(dir, "lexer", "lexer.go")); err != nil {
		return nil, fmt.Errorf("lexer.go: %v", err)
	}
	return e, nil
}

func parseFile(path string) (*ast.File, error) {
	src, err := os.ReadFile(path)
	if err != nil {
		return nil, err
	}
	return parser.ParseFile(token.NewFileSet(), path, src, parser.SkipObjectResolution)
}

// findVar returns the composite literal that initialises package-level
// variable `name`.
func findVar(f *ast.File, name string) *ast.CompositeLit {
	for _, d := range f.Decls {
		gd, ok := d.(*ast.GenDecl)
		if !ok || gd.Tok != token.VAR {
			continue
		}
		for _, sp := range gd.Specs {
			vs := sp.(*ast.ValueSpec)
			for i, n := range vs.Names {
				if n.Name == name && i < len(vs.Values) {
					if cl, ok := vs.Values[i].(*ast.CompositeLit); ok {
						return cl
					}
				}
			}
		}
	}
	return nil
}

// intExpr evaluates an integer literal, a negated literal, or NoState.
func intExpr(x ast.Expr) (int, error) {
	switch v := x.(type) {
	case *ast.BasicLit:
		if v.Kind == token.INT || v.Kind == token.CHAR {
			if v.Kind == token.CHAR {
				r, _, _, err := strconv.UnquoteChar(v.Value[1:len(v.Value)-1], '\'')
				return int(r), err
			}
			n, err := strconv.ParseInt(v.Value, 0, 64)
			return int(n), err
		}
	case *ast.UnaryExpr:
		if v.Op == token.SUB {
			n, err := intExpr(v.X)
			return -n, err
		}
	case *ast.Ident:
		if v.Name == "NoState" {
			return noState, nil
		}
	case *ast.ParenExpr:
		return intExpr(v.X)
	}
	return 0, fmt.Errorf("not an integer constant: %T", x)
}

func isR(x ast.Expr) bool {
	id, ok := x.(*ast.Ident)
	return ok && id.Name == "r"
}

// caseRange recognises `r == N` and `A <= r && r <= B`.
func caseRange(x ast.Expr) (lo, hi rune, err error) {
	if p, ok := x.(*ast.ParenExpr); ok {
		return caseRange(p.X)
	}
	be, ok := x.(*ast.BinaryExpr)
	if !ok {
		return 0, 0, fmt.Errorf("case expression is not a comparison")
	}
	switch be.Op {
	case token.EQL:
		switch {
		case isR(be.X):
			n, err := intExpr(be.Y)
			return rune(n), rune(n), err
		case isR(be.Y):
			n, err := intExpr(be.X)
			return rune(n), rune(n), err
		}
	case token.LAND:
		l, ok1 := be.X.(*ast.BinaryExpr)
		r, ok2 := be.Y.(*ast.BinaryExpr)
		if ok1 && ok2 && l.Op == token.LEQ && r.Op == token.LEQ && isR(l.Y) && isR(r.X) {
			a, err1 := intExpr(l.X)
			b, err2 := intExpr(r.Y)
			if err1 != nil {
				return 0, 0, err1
			}
			if err2 != nil {
				return 0, 0, err2
			}
			return rune(a), rune(b), nil
		}
	}
	return 0, 0, fmt.Errorf("unrecognised case expression shape")
}

func returnValue(stmts []ast.Stmt) (int, error) {
	if len(stmts) != 1 {
		return 0, fmt.Errorf("expected a single return statement, found %d statements", len(stmts))
	}
	rs, ok := stmts[0].(*ast.ReturnStmt)
	if !ok || len(rs.Results) != 1 {
		return 0, fmt.Errorf("expected `return <state>`")
	}
	return intExpr(rs.Results[0])
}

func (e *Emitted) readTransitions(path string) error {
	f, err := parseFile(path)
	if err != nil {
		return err
	}
	cl := findVar(f, "TransTab")
	if cl == nil {
		return fmt.Errorf("var TransTab not found")
	}
	for i, elt := range cl.Elts {
		fl, ok := elt.(*ast.FuncLit)
		if !ok {
			return fmt.Errorf("S%d: element is not a function literal", i)
		}
		var st emState
		body := fl.Body.List
		if len(body) == 0 || len(body) > 2 {
			return fmt.Errorf("S%d: unexpected function body (%d statements)", i, len(body))
		}
		sw, ok := body[0].(*ast.SwitchStmt)
		if !ok || sw.Tag != nil || sw.Init != nil {
			return fmt.Errorf("S%d: first statement is not a tagless switch", i)
		}
		for _, cs := range sw.Body.List {
			cc := cs.(*ast.CaseClause)
			tgt, err := returnValue(cc.Body)
			if err != nil {
				return fmt.Errorf("S%d: %v", i, err)
			}
			if cc.List == nil {
				if st.hasDefault {
					return fmt.Errorf("S%d: two default arms", i)
				}
				st.hasDefault, st.defTarget = true, tgt
				continue
			}
			for _, x := range cc.List {
				lo, hi, err := caseRange(x)
				if err != nil {
					return fmt.Errorf("S%d: %v", i, err)
				}
				st.cases = append(st.cases, emCase{lo: lo, hi: hi, target: tgt})
			}
		}
		if len(body) == 2 {
			tgt, err := returnValue(body[1:])
			if err != nil {
				return fmt.Errorf("S%d: %v", i, err)
			}
			st.hasTail, st.tailTarget = true, tgt
		} else if !st.hasDefault {
			return fmt.Errorf("S%d: neither a default arm nor a trailing return", i)
		}
		e.States = append(e.States, st)
	}
	return nil
}

func (e *Emitted) readActions(path string) error {
	f, err := parseFile(path)
	if err != nil {
		return err
	}
	cl := findVar(f, "ActTab")
	if cl == nil {
		return fmt.Errorf("var ActTab not found")
	}
	for i, elt := range cl.Elts {
		row, ok := elt.(*ast.CompositeLit)
		if !ok {
			return fmt.Errorf("S%d: element is not a composite literal", i)
		}
		var a emAction
		seenA, seenI := false, false
		for _, fe := range row.Elts {
			kv, ok := fe.(*ast.KeyValueExpr)
			if !ok {
				return fmt.Errorf("S%d: unkeyed field", i)
			}
			k, _ := kv.Key.(*ast.Ident)
			if k == nil {
				return fmt.Errorf("S%d: bad field key", i)
			}
			switch k.Name {
			case "Accept":
				n, err := intExpr(kv.Value)
				if err != nil {
					return fmt.Errorf("S%d: Accept: %v", i, err)
				}
				a.Accept, seenA = n, true
			case "Ignore":
				bl, ok := kv.Value.(*ast.BasicLit)
				if !ok || bl.Kind != token.STRING {
					return fmt.Errorf("S%d: Ignore is not a string literal", i)
				}
				s, err := strconv.Unquote(bl.Value)
				if err != nil {
					return fmt.Errorf("S%d: Ignore: %v", i, err)
				}
				a.Ignore, seenI = s, true
			default:
				return fmt.Errorf("S%d: unknown field %s", i, k.Name)
			}
		}
		if !seenA || !seenI {
			return fmt.Errorf("S%d: Accept/Ignore field missing", i)
		}
		e.Actions = append(e.Actions, a)
	}
	return nil
}

func (e *Emitted) readTokens(path string) error {
	f, err := parseFile(path)
	if err != nil {
		return err
	}
	cl := findVar(f, "TokMap")
	if cl == nil {
		return fmt.Errorf("var TokMap not found")
	}
	e.IdMap = map[string]int{}
	seenT, seenI := false, false
	for _, fe := range cl.Elts {
		kv, ok := fe.(*ast.KeyValueExpr)
		if !ok {
			return fmt.Errorf("TokMap: unkeyed field")
		}
		k, _ := kv.Key.(*ast.Ident)
		v, _ := kv.Value.(*ast.CompositeLit)
		if k == nil || v == nil {
			return fmt.Errorf("TokMap: unexpected field shape")
		}
		switch k.Name {
		case "typeMap":
			seenT = true
			for _, x := range v.Elts {
				bl, ok := x.(*ast.BasicLit)
				if !ok || bl.Kind != token.STRING {
					return fmt.Errorf("typeMap: element is not a string literal")
				}
				s, err := strconv.Unquote(bl.Value)
				if err != nil {
					return err
				}
				e.TypeMap = append(e.TypeMap, s)
			}
		case "idMap":
			seenI = true
			for _, x := range v.Elts {
				ekv, ok := x.(*ast.KeyValueExpr)
				if !ok {
					return fmt.Errorf("idMap: element is not key: value")
				}
				bl, ok := ekv.Key.(*ast.BasicLit)
				if !ok || bl.Kind != token.STRING {
					return fmt.Errorf("idMap: key is not a string literal")
				}
				s, err := strconv.Unquote(bl.Value)
				if err != nil {
					return err
				}
				n, err := intExpr(ekv.Value)
				if err != nil {
					return fmt.Errorf("idMap[%q]: %v", s, err)
				}
				if _, dup := e.IdMap[s]; dup {
					e.IdMapDups = append(e.IdMapDups, s)
				}
				e.IdMap[s] = n
			}
		}
	}
	if !seenT || !seenI {
		return fmt.Errorf("TokMap: typeMap/idMap missing")
	}
	return nil
}

func (e *Emitted) readNumStates(path string) error {
	f, err := parseFile(path)
	if err != nil {
		return err
	}
	for _, d := range f.Decls {
		gd, ok := d.(*ast.GenDecl)
		if !ok || gd.Tok != token.CONST {
			continue
		}
		for _, sp := range gd.Specs {
			vs := sp.(*ast.ValueSpec)
			for i, n := range vs.Names {
				if n.Name == "NumStates" && i < len(vs.Values) {
					v, err := intExpr(vs.Values[i])
					if err != nil {
						return err
					}
					e.NumStates = v
				}
			}
		}
	}
	if e.NumStates < 0 {
		return fmt.Errorf("const NumStates not found")
	}
	return nil
}

// CheckWF checks well-formedness of the emitted tables; it returns a list of
// violations (empty if none).
func (e *Emitted) CheckWF() []string {
	var out []string
	n := len(e.States)
	if e.NumStates != n {
		out = append(out, fmt.Sprintf("NumStates = %d but TransTab has %d entries", e.NumStates, n))
	}
	if len(e.Actions) != n {
		out = append(out, fmt.Sprintf("ActTab has %d rows but TransTab has %d entries", len(e.Actions), n))
	}
	if n == 0 {
		out = append(out, "TransTab is empty (no start state)")
	}
	chk := func(s int, what string, t int) {
		if t < -1 || t >= e.NumStates || t >= n {
			out = append(out, fmt.Sprintf("S%d: %s returns state %d, not -1 and not < NumStates (%d)", s, what, t, e.NumStates))
		}
	}
	for s, st := range e.States {
		for _, c := range st.cases {
			chk(s, fmt.Sprintf("case [%d,%d]", c.lo, c.hi), c.target)
			if c.lo > c.hi {
				out = append(out, fmt.Sprintf("S%d: empty case range [%d,%d]", s, c.lo, c.hi))
			}
		}
		if st.hasDefault {
			chk(s, "default arm", st.defTarget)
		}
		if st.hasTail {
			chk(s, "trailing return", st.tailTarget)
		}
	}
	for s, a := range e.Actions {
		if (a.Accept == -1) != (a.Ignore != "") {
			out = append(out, fmt.Sprintf("S%d: Accept=%d with Ignore=%q (an ignore name must be present exactly when Accept == -1)", s, a.Accept, a.Ignore))
		}
		if a.Accept == 1 {
			out = append(out, fmt.Sprintf("S%d: Accept = 1 (the end-of-input token)", s))
		}
		if a.Accept < -1 || a.Accept >= len(e.TypeMap) {
			out = append(out, fmt.Sprintf("S%d: Accept = %d is outside the typeMap (len %d)", s, a.Accept, len(e.TypeMap)))
		}
	}
	if len(e.TypeMap) < 2 || e.TypeMap[0] != "INVALID" {
		out = append(out, `typeMap[0] != "INVALID"`)
	}
	if len(e.TypeMap) < 2 || e.TypeMap[1] != "␚" {
		out = append(out, `typeMap[1] != "␚"`)
	}
	seen := map[string]int{}
	for i, s := range e.TypeMap {
		if j, dup := seen[s]; dup {
			out = append(out, fmt.Sprintf("typeMap[%d] == typeMap[%d] == %q", j, i, s))
		}
		seen[s] = i
		if v, ok := e.IdMap[s]; !ok || v != i {
			out = append(out, fmt.Sprintf("idMap[typeMap[%d]=%q] = %d (present=%v), want %d", i, s, v, ok, i))
		}
	}
	if len(e.IdMap) != len(seen) {
		out = append(out, fmt.Sprintf("idMap has %d keys, typeMap %d distinct names", len(e.IdMap), len(seen)))
	}
	for _, d := range e.IdMapDups {
		out = append(out, fmt.Sprintf("idMap literal repeats key %q", d))
	}
	return out
}

// usable tells whether the tables are sound enough to run the bisimulation
// (all state numbers in range, action table complete).
func (e *Emitted) usable() bool {
	n := len(e.States)
	if n == 0 || len(e.Actions) != n {
		return false
	}
	ok := func(t int) bool { return t >= -1 && t < n }
	for _, st := range e.States {
		for _, c := range st.cases {
			if !ok(c.target) {
				return false
			}
		}
		if st.hasDefault && !ok(st.defTarget) {
			return false
		}
		if st.hasTail && !ok(st.tailTarget) {
			return false
		}
	}
	return true
}
