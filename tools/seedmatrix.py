#!/usr/bin/env python3
"""Runs every seeded change (seeded/<ID>-<k>/patch.diff) and every canary (selftest/<ID>/*.diff) against the quick check
of its property on a scratch copy of /repo; writes seeded/MATRIX.json and prints a markdown table."""
import os, sys, json, glob, subprocess, tempfile, shutil, re, time
V = os.path.dirname(os.path.dirname(os.path.abspath(__file__)))
only = sys.argv[1:] 
rows = []
pats = sorted(glob.glob(os.path.join(V, "seeded", "C*-*", "patch.diff"))) + sorted(glob.glob(os.path.join(V, "selftest", "C*", "*.diff")))
for p in pats:
    rel = os.path.relpath(p, V)
    prop = re.search(r"(C\d\d)", rel).group(1)
    if only and not any(o in rel for o in only):
        continue
    scratch = tempfile.mkdtemp(prefix="seedmx-")
    t0 = time.time()
    try:
        subprocess.run(["rsync", "-a", "--exclude", ".git", "/repo/", scratch + "/"], check=True)
        r = subprocess.run(["git", "apply", "--unsafe-paths", "--directory=" + scratch, p], cwd="/", capture_output=True, text=True)
        if r.returncode != 0:
            r = subprocess.run(["patch", "-p1", "-s", "-i", p], cwd=scratch, capture_output=True, text=True)
        if r.returncode != 0:
            rows.append({"seed": rel, "property": prop, "result": "patch does not apply to the current tree"})
            print(rows[-1], flush=True)
            continue
        env = dict(os.environ, VERIF_NO_EVIDENCE="1", GOFLAGS="-mod=mod", GOPROXY="off")
        r = subprocess.run([os.path.join(V, "check"), prop, "--tier", "quick", "--repo", scratch], capture_output=True, text=True, env=env, cwd=V)
        out = r.stdout + r.stderr
        vio = [l for l in out.split("\n") if l.startswith("VIOLATION")]
        deg = [l for l in out.split("\n") if l.startswith("DEGRADED")]
        how = ""
        hows = []
        for v in vio[:12]:
            rp = v.split("replay=")[1].split()[0]
            try:
                j = json.load(open(rp))
                h = j.get("found_by", "") or (j.get("id", "")[:60])
                if j.get("obligations"):
                    h += ": " + ", ".join(o["name"] for o in j["obligations"][:3])
                elif j.get("obligation"):
                    h += ": " + j["obligation"]
                if j.get("input") is not None:
                    h += " [failing input replayed]"
                if h not in hows:
                    hows.append(h)
            except Exception as e:
                pass
        # contract obligations first, then bounded cases
        hows.sort(key=lambda h: (not h.startswith("govc"), h))
        how = "; ".join(hows[:3])
        res = "detected" if vio else ("engine error (exit 2)" if r.returncode == 2 else "MISSED")
        rows.append({"seed": rel, "property": prop, "result": res, "violations": len(vio), "how": how[:300], "degraded": len(deg), "secs": round(time.time() - t0)})
        print(rows[-1], flush=True)
    finally:
        shutil.rmtree(scratch, ignore_errors=True)
json.dump(rows, open(os.path.join(V, "seeded", "MATRIX.json" if not only else "MATRIX.partial.json"), "w"), indent=1)
