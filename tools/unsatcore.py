#!/usr/bin/env python3
"""unsatcore.py file.smt2 : prints the assertions in z3's unsat core (debugging aid for vacuous paths)."""
import sys, subprocess, re
src = open(sys.argv[1]).read()
out, i, n, names = [], 0, 0, {}
lines = src.split("\n")
res = ["(set-option :produce-unsat-cores true)"]
for l in lines:
    if l.startswith("(assert ") and not l.startswith("(assert (forall ((s Str))"):
        n += 1
        body = l[len("(assert "):-1]
        names["a%d" % n] = body
        res.append("(assert (! %s :named a%d))" % (body, n))
    elif l.startswith("(check-sat") or l.startswith("(get-model"):
        continue
    else:
        res.append(l)
res.append("(check-sat)\n(get-unsat-core)")
p = subprocess.run(["z3", "-in", "-T:30"], input="\n".join(res), capture_output=True, text=True)
print(p.stdout[:200])
for m in re.findall(r"a\d+", p.stdout.split("\n", 1)[1] if "\n" in p.stdout else ""):
    print(m, names[m][:600])
