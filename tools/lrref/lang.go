package main

// Language check: drive the real generated Parse with hand-made token
// sequences and compare acceptance with an independent membership test.

import (
	"bytes"
	"context"
	"fmt"
	"hash/fnv"
	"os"
	"os/exec"
	"path/filepath"
	"strings"
	"time"
)

const langMaxLen = 4

// langSampled selects every 20th case (by a hash of the stable case id mixed
// with the seed, so that the selection is independent of sharding and can be
// replayed with -only and the same -seed).
func langSampled(id string, seed uint64) bool {
	h := fnv.New64a()
	h.Write([]byte(id))
	return (h.Sum64()%1000003+seed)%20 == 0
}

// derives reports whether the grammar's start symbol derives the terminal
// string w.  It is a CYK-style least fixed point over spans that works
// directly on the grammar (no normal form): D[A][i][j] holds iff A =>* w[i:j];
// a production A -> X1..Xk contributes when the body can be matched against
// w[i:j] piecewise.  Empty productions and cyclic unit productions are handled
// by iterating to the fixed point.
func derives(g *Grammar, w []int) bool {
	n := len(w)
	nNT := len(g.NTs)
	D := make([][][]bool, nNT)
	for a := range D {
		D[a] = make([][]bool, n+1)
		for i := range D[a] {
			D[a][i] = make([]bool, n+1)
		}
	}
	for changed := true; changed; {
		changed = false
		for _, p := range g.Prods {
			for i := 0; i <= n; i++ {
				// reach = set of positions reachable after matching a body prefix from i
				reach := make([]bool, n+1)
				reach[i] = true
				for _, x := range p.Body {
					next := make([]bool, n+1)
					for m := i; m <= n; m++ {
						if !reach[m] {
							continue
						}
						if g.isTerm(x) {
							if m < n && w[m] == x {
								next[m+1] = true
							}
						} else {
							for j := m; j <= n; j++ {
								if D[g.ntOf(x)][m][j] {
									next[j] = true
								}
							}
						}
					}
					reach = next
				}
				for j := i; j <= n; j++ {
					if reach[j] && !D[p.Head][i][j] {
						D[p.Head][i][j] = true
						changed = true
					}
				}
			}
		}
	}
	return D[0][0][n]
}

// sequences enumerates all strings over alpha of length 0..maxLen, by length
// then lexicographically (the driver program uses the same order).
func sequences(alpha []int, maxLen int) [][]int {
	res := [][]int{{}}
	prev := [][]int{{}}
	for l := 1; l <= maxLen; l++ {
		var cur [][]int
		for _, p := range prev {
			for _, a := range alpha {
				cur = append(cur, append(append([]int{}, p...), a))
			}
		}
		res = append(res, cur...)
		prev = cur
	}
	return res
}

// ---- batched driver ---------------------------------------------------------
//
// Building one Go program per grammar is dominated by the link step.  The
// sampled cases are therefore processed in batches: one scratch module
// `module x` holds the output of gocc for every case of the batch in its own
// sub-directory cK (gocc derives the import paths x/cK/parser, x/cK/token,
// ... from the position below go.mod), and ONE main package imports the real
// generated parser of each case.  The binary is then run once per case.

const langBatchSize = 32

const driverHead = `package main

import (
	"os"
	"strconv"
%s)

type entry struct {
	run   func([]int) byte
	alpha []int
}

var entries = map[int]entry{}

func main() {
	k, err := strconv.Atoi(os.Args[1])
	if err != nil {
		os.Exit(3)
	}
	e, ok := entries[k]
	if !ok {
		os.Exit(3)
	}
	maxLen := %d
	var out []byte
	prev := [][]int{{}}
	out = append(out, e.run(nil))
	for l := 1; l <= maxLen; l++ {
		var cur [][]int
		for _, p := range prev {
			for _, a := range e.alpha {
				s := append(append([]int{}, p...), a)
				cur = append(cur, s)
				out = append(out, e.run(s))
			}
		}
		prev = cur
	}
	os.Stdout.Write(out)
}
`

const driverCase = `
type sc%[1]d struct {
	toks []int
	i    int
}

func (s *sc%[1]d) Scan() *t%[1]d.Token {
	if s.i < len(s.toks) {
		t := s.toks[s.i]
		s.i++
		return &t%[1]d.Token{Type: t%[1]d.Type(t), Lit: []byte("x")}
	}
	return &t%[1]d.Token{Type: t%[1]d.EOF, Lit: []byte{}}
}

func run%[1]d(seq []int) (r byte) {
	defer func() {
		if recover() != nil {
			r = 'P'
		}
	}()
	p := p%[1]d.NewParser()
	if _, err := p.Parse(&sc%[1]d{toks: seq}); err != nil {
		return '0'
	}
	return '1'
}

func init() { entries[%[1]d] = entry{run%[1]d, []int{%[2]s}} }
`

type langItem struct {
	c     *Case
	g     *Grammar
	em    *Emitted
	alpha []int    // typeMap columns of the ordinary terminals
	names []string // their names
	fails []Fail
	ready bool
}

func (it *langItem) fail(kind, format string, a ...interface{}) {
	it.fails = append(it.fails, Fail{ID: it.c.ID, Grammar: it.c.Text, Flags: strings.Join(it.c.Flags, " "),
		Kind: kind, Msg: fmt.Sprintf(format, a...)})
}

func driverSource(items []*langItem, ks []int) string {
	var imports, body strings.Builder
	for _, k := range ks {
		fmt.Fprintf(&imports, "\n\tp%[1]d \"x/c%[1]d/parser\"\n\tt%[1]d \"x/c%[1]d/token\"\n", k)
		var lits []string
		for _, c := range items[k].alpha {
			lits = append(lits, fmt.Sprint(c))
		}
		fmt.Fprintf(&body, driverCase, k, strings.Join(lits, ", "))
	}
	return fmt.Sprintf(driverHead, imports.String(), langMaxLen) + body.String()
}

func goBuild(dir, out, pkg string) (string, error) {
	ctx, cancel := context.WithTimeout(context.Background(), 15*time.Minute)
	defer cancel()
	build := exec.CommandContext(ctx, "go", "build", "-o", out, pkg)
	build.Dir = dir
	build.Env = append(os.Environ(), "GOFLAGS=-mod=mod", "GOPROXY=off")
	outp, err := build.CombinedOutput()
	return string(outp), err
}

// languageBatch runs the language check for a batch of cases and returns the
// failures.  Every case of the batch was conflict free and passed the table
// comparison in the first phase; gocc is run again below the batch module and
// the tables it emits are compared with the reference once more, so that the
// code that is compiled is known to contain the verified tables.
func languageBatch(cfg *sweepCfg, cases []*Case) []Fail {
	items := make([]*langItem, len(cases))
	for i, c := range cases {
		items[i] = &langItem{c: c}
	}
	collect := func() []Fail {
		var fs []Fail
		for _, it := range items {
			fs = append(fs, it.fails...)
		}
		return fs
	}
	dir, err := os.MkdirTemp(cfg.tmp, "lrref-lang-")
	if err != nil {
		items[0].fail("internal", "cannot create scratch dir: %v", err)
		return collect()
	}
	if !cfg.keep {
		defer os.RemoveAll(dir)
	}
	if err := os.WriteFile(filepath.Join(dir, "go.mod"), []byte("module x\n\ngo 1.24\n"), 0o644); err != nil {
		items[0].fail("internal", "%v", err)
		return collect()
	}
	var ks []int
	for k, it := range items {
		sub := filepath.Join(dir, fmt.Sprintf("c%d", k))
		if err := os.MkdirAll(sub, 0o755); err != nil {
			it.fail("internal", "%v", err)
			continue
		}
		if err := os.WriteFile(filepath.Join(sub, "g.bnf"), []byte(it.c.Text), 0o644); err != nil {
			it.fail("internal", "%v", err)
			continue
		}
		status, _, stderr, timedOut, err := runGocc(cfg, sub, it.c.Flags)
		if err != nil || timedOut || status != 0 {
			it.fail("language", "second gocc run (in module sub-directory) failed: status %d timeout %v err %v stderr %q", status, timedOut, err, firstLines(stderr, 3))
			continue
		}
		it.g = it.c.Spec.grammar()
		em, err := readEmitted(sub)
		if err != nil {
			it.fail("readback", "second gocc run: %v", err)
			continue
		}
		if ms := compareTables(it.g, canonicalLR1(it.g), em, it.c.Spec.lexTokens()); len(ms) > 0 {
			it.fail("nondeterminism", "tables of a second gocc run differ from the reference although the first run matched: %s: %s", ms[0].kind, ms[0].msg)
			continue
		}
		it.em = em
		for i, n := range em.TypeMap {
			if i < 2 || n == "error" || n == "empty" {
				continue
			}
			it.alpha = append(it.alpha, i)
			it.names = append(it.names, n)
		}
		// the lexer and util packages are not needed by the driver
		os.RemoveAll(filepath.Join(sub, "lexer"))
		os.RemoveAll(filepath.Join(sub, "util"))
		it.ready = true
		ks = append(ks, k)
	}
	if len(ks) == 0 {
		return collect()
	}
	writeDriver := func(name string, ks []int) error {
		d := filepath.Join(dir, name)
		if err := os.MkdirAll(d, 0o755); err != nil {
			return err
		}
		return os.WriteFile(filepath.Join(d, "main.go"), []byte(driverSource(items, ks)), 0o644)
	}
	bin := map[int]string{}
	if err := writeDriver("drv", ks); err != nil {
		items[ks[0]].fail("internal", "%v", err)
		return collect()
	}
	if _, err := goBuild(dir, "drv.bin", "./drv"); err == nil {
		for _, k := range ks {
			bin[k] = filepath.Join(dir, "drv.bin")
		}
	} else {
		// find the culprit(s): build one driver per case
		for _, k := range ks {
			name := fmt.Sprintf("drv%d", k)
			if err := writeDriver(name, []int{k}); err != nil {
				items[k].fail("internal", "%v", err)
				continue
			}
			if outp, err := goBuild(dir, name+".bin", "./"+name); err != nil {
				items[k].fail("compile", "generated parser does not build: %v: %s", err, firstLines(outp, 6))
				continue
			}
			bin[k] = filepath.Join(dir, name+".bin")
		}
	}
	for _, k := range ks {
		if bin[k] == "" {
			continue
		}
		it := items[k]
		ctx, cancel := context.WithTimeout(context.Background(), 60*time.Second)
		run := exec.CommandContext(ctx, bin[k], fmt.Sprint(k))
		run.Dir = dir
		var so, se bytes.Buffer
		run.Stdout, run.Stderr = &so, &se
		err := run.Run()
		cancel()
		if err != nil {
			it.fail("language", "driver failed (a time-out means Parse does not terminate): %v: %s", err, firstLines(se.String(), 6))
			continue
		}
		if msg := compareLanguage(it, so.Bytes()); msg != "" {
			it.fail("language", "%s", msg)
		}
	}
	return collect()
}

// compareLanguage compares the driver output with the membership test.
//
// For grammars without `error` the comparison is exact (err == nil iff the
// sequence is in the language, and Parse must not panic).  For grammars with
// `error` productions the generated parser performs error recovery and may
// legitimately accept more, so only "in the language => err == nil" is required.
func compareLanguage(it *langItem, got []byte) string {
	g := it.g
	hasError := false
	refTerm := map[string]int{}
	for t, n := range g.Terms {
		refTerm[n] = t
		if n == "error" {
			hasError = true
		}
	}
	idx := make([]int, len(it.alpha))
	for i := range idx {
		idx[i] = i
	}
	seqs := sequences(idx, langMaxLen)
	if len(got) != len(seqs) {
		return fmt.Sprintf("driver printed %d results, expected %d", len(got), len(seqs))
	}
	bad := 0
	first := ""
	for k, s := range seqs {
		w := make([]int, len(s))
		var names []string
		for i, a := range s {
			names = append(names, it.names[a])
			if t, ok := refTerm[it.names[a]]; ok {
				w[i] = t
			} else {
				w[i] = -1 // terminal not used by the grammar: never matches
			}
		}
		in := derives(g, w)
		r := got[k]
		ok := true
		switch {
		case r == 'P' && !hasError:
			ok = false
		case in && r != '1':
			ok = false
		case !in && r == '1' && !hasError:
			ok = false
		}
		if !ok {
			bad++
			if first == "" {
				first = fmt.Sprintf("input %q: membership test says in-language=%v, generated Parse gave %s",
					strings.Join(names, " "), in, map[byte]string{'0': "err != nil", '1': "err == nil", 'P': "a panic"}[r])
			}
		}
	}
	if bad > 0 {
		return fmt.Sprintf("%s (%d of %d sequences differ)", first, bad, len(seqs))
	}
	return ""
}

func firstLines(s string, n int) string {
	ls := strings.Split(strings.TrimSpace(s), "\n")
	if len(ls) > n {
		ls = ls[:n]
	}
	return strings.Join(ls, " | ")
}
