package main

// Language check: drive the real generated Parse with hand-made token
// sequences and compare acceptance with an independent membership test.

import (
	"bytes"
	"context"
	"fmt"
	"hash/fnv"
	"os"
	"os/exec"
	"path/filepath"
	"strings"
	"time"
)

const langMaxLen = 4

// langSampled selects every 20th case (by a hash of the stable case id mixed
// with the seed, so that the selection is independent of sharding and can be
// replayed with -only and the same -seed).
func langSampled(id string, seed uint64) bool {
	h := fnv.New64a()
	h.Write([]byte(id))
	return (h.Sum64()%1000003+seed)%20 == 0
}

// derives reports whether the grammar's start symbol derives the terminal
// string w.  It is a CYK-style least fixed point over spans that works
// directly on the grammar (no normal form): D[A][i][j] holds iff A =>* w[i:j];
// a production A -> X1..Xk contributes when the body can be matched against
// w[i:j] piecewise.  Empty productions and cyclic unit productions are handled
// by iterating to the fixed point.
func derives(g *Grammar, w []int) bool {
	n := len(w)
	nNT := len(g.NTs)
	D := make([][][]bool, nNT)
	for a := range D {
		D[a] = make([][]bool, n+1)
		for i := range D[a] {
			D[a][i] = make([]bool, n+1)
		}
	}
	for changed := true; changed; {
		changed = false
		for _, p := range g.Prods {
			for i := 0; i <= n; i++ {
				// reach = set of positions reachable after matching a body prefix from i
				reach := make([]bool, n+1)
				reach[i] = true
				for _, x := range p.Body {
					next := make([]bool, n+1)
					for m := i; m <= n; m++ {
						if !reach[m] {
							continue
						}
						if g.isTerm(x) {
							if m < n && w[m] == x {
								next[m+1] = true
							}
						} else {
							for j := m; j <= n; j++ {
								if D[g.ntOf(x)][m][j] {
									next[j] = true
								}
							}
						}
					}
					reach = next
				}
				for j := i; j <= n; j++ {
					if reach[j] && !D[p.Head][i][j] {
						D[p.Head][i][j] = true
						changed = true
					}
				}
			}
		}
	}
	return D[0][0][n]
}

// sequences enumerates all strings over alpha of length 0..maxLen, by length
// then lexicographically (the driver program uses the same order).
func sequences(alpha []int, maxLen int) [][]int {
	res := [][]int{{}}
	prev := [][]int{{}}
	for l := 1; l <= maxLen; l++ {
		var cur [][]int
		for _, p := range prev {
			for _, a := range alpha {
				cur = append(cur, append(append([]int{}, p...), a))
			}
		}
		res = append(res, cur...)
		prev = cur
	}
	return res
}

