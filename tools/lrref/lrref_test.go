package main

import (
	"strings"
	"testing"
)

func specOf(t *testing.T, src string) *GSpec {
	s, err := parseSyntaxText(src)
	if err != nil {
		t.Fatal(err)
	}
	return s
}

// Textbook examples with known sizes of the canonical LR(1) collection.
func TestCanonicalSizes(t *testing.T) {
	for _, tc := range []struct {
		src              string
		states, conflict int
	}{
		// Dragon book (2nd ed.) example 4.54: S -> C C, C -> c C | d : 10 states
		{"S : A A ; A : c A | d ;", 10, 0},
		// Dragon book example 4.48 (not SLR, but LR(1)): S -> L = R | R, L -> * R | id, R -> L : 14 states
		{"S : A eq B | B ; A : star B | id ; B : A ;", 14, 0},
		// dangling-else style ambiguity: shift/reduce conflict
		{"S : i S | i S e S | a ;", 0, 1},
		// S -> S | a : accept/reduce conflict
		{"S : S | a ;", 0, 1},
		// empty language grammar, still a finite automaton
		{"S : S a ;", 3, 0},
	} {
		g := specOf(t, tc.src).grammar()
		a := canonicalLR1(g)
		ci := a.conflicts()
		if tc.states != 0 && len(a.States) != tc.states {
			t.Errorf("%s: %d states, want %d", tc.src, len(a.States), tc.states)
		}
		if ci.States != tc.conflict {
			t.Errorf("%s: %d conflicting states, want %d", tc.src, ci.States, tc.conflict)
		}
	}
	g := specOf(t, "S : S | a ;").grammar()
	if !canonicalLR1(g).conflicts().AcceptInvolv {
		t.Error("S : S | a must have an accept conflict")
	}
}

func TestFirstNullable(t *testing.T) {
	g := specOf(t, "S : A B c ; A : a | empty ; B : b | empty ;").grammar()
	// NTs: S' S A B
	if g.nullable[1] || !g.nullable[2] || !g.nullable[3] {
		t.Errorf("nullable = %v", g.nullable)
	}
	want := map[string]bool{"a": true, "b": true, "c": true}
	for ti, name := range g.Terms {
		has := g.first[1]&(1<<uint(ti)) != 0
		if has != want[name] {
			t.Errorf("FIRST(S) membership of %s = %v", name, has)
		}
	}
}

func TestDerives(t *testing.T) {
	g := specOf(t, "S : a S b | empty ;").grammar()
	idx := map[string]int{}
	for i, n := range g.Terms {
		idx[n] = i
	}
	w := func(s string) []int {
		var r []int
		for _, c := range s {
			r = append(r, idx[string(c)])
		}
		return r
	}
	for s, want := range map[string]bool{"": true, "ab": true, "aabb": true, "a": false, "ba": false, "abab": false, "aab": false} {
		if got := derives(g, w(s)); got != want {
			t.Errorf("derives(%q) = %v, want %v", s, got, want)
		}
	}
	// cyclic and nullable: S -> S S | A ; A -> a | empty
	g = specOf(t, "S : S S | A ; A : a | empty ;").grammar()
	idx = map[string]int{}
	for i, n := range g.Terms {
		idx[n] = i
	}
	for s, want := range map[string]bool{"": true, "a": true, "aaa": true} {
		if got := derives(g, w(s)); got != want {
			t.Errorf("derives(%q) = %v, want %v", s, got, want)
		}
	}
}

func TestScopeSizes(t *testing.T) {
	q, _ := scopeSpecs("quick")
	if n := len(q.specs); n < 400 || n > 700 {
		t.Errorf("quick scope has %d grammars", n)
	}
	th, _ := scopeSpecs("thorough")
	if n := len(th.specs); n < 20000 {
		t.Errorf("thorough scope has %d grammars", n)
	}
	// thorough contains quick
	seen := map[string]bool{}
	for _, s := range th.specs {
		seen[s.text()] = true
	}
	for _, s := range q.specs {
		if !seen[s.text()] {
			t.Fatalf("quick grammar missing from thorough: %s", s.syntaxText())
		}
	}
	// ids are unique and independent of the seed
	a := buildCases(q.specs, 0)
	b := buildCases(q.specs, 7)
	ids := map[string]bool{}
	for _, c := range a {
		if ids[c.ID] {
			t.Fatalf("duplicate id %s", c.ID)
		}
		ids[c.ID] = true
	}
	for _, c := range b {
		if !ids[c.ID] {
			t.Fatalf("seed changed the case set")
		}
	}
	if len(a) != len(b) {
		t.Fatal("seed changed the number of cases")
	}
}

func TestReadGrammar(t *testing.T) {
	src := `/* c */
a : 'a' ; semi : ';' ; _d : '0'-'9' ; !ws : ' ' | '\n' ;
<< import "fmt" >>
S : A "x" ";" << fmt.Sprint($0), nil >> | error semi ;
A : a ;
A : empty | "if" A ;
`
	s, err := readGrammar(src)
	if err != nil {
		t.Fatal(err)
	}
	if got := strings.Join(s.Lex, ","); got != "a,semi" {
		t.Errorf("lexical tokens = %s", got)
	}
	g := s.grammar()
	want := []string{"S' : S", `S : A "x" ";"`, "S : error semi", "A : a", "A : empty", `A : "if" A`}
	if len(g.Prods) != len(want) {
		t.Fatalf("%d productions", len(g.Prods))
	}
	for i, w := range want {
		if g.prodString(i) != w {
			t.Errorf("production %d = %q, want %q", i, g.prodString(i), w)
		}
	}
	if len(g.Prods[4].Body) != 0 || len(g.Prods[1].Body) != 3 {
		t.Error("body lengths")
	}
	if _, err := readGrammar("S : a Undefined ;"); err == nil {
		t.Error("undefined nonterminal not reported")
	}
}

func TestChainsTier(t *testing.T) {
	q, _ := scopeSpecs("quick")
	n := q.tiers["Q5-chains"]
	if n < 150 || n > 250 {
		t.Errorf("chains tier has %d grammars", n)
	}
	have := map[string]bool{}
	for _, s := range q.specs {
		if s.Tier != "Q5-chains" {
			continue
		}
		have[strings.Join(strings.Fields(s.syntaxText()), " ")] = true
		if k := len(s.Alts); k < 3 || k > 6 {
			t.Errorf("chains grammar with %d nonterminals: %s", k, s.syntaxText())
		}
	}
	for _, w := range []string{
		"Top : P S ; P : p ; S : A x ; A : B | a ; B : C | b ; C : c ;",
		"Top : P S ; C : c ; B : C | b ; A : B | a ; S : A x ; P : p ;",
		"Decl : Type Mods x ; Type : t ; Mods : Quals ; Quals : empty | Quals q ;",
		"S : x A Opt c ; A : a | A a ; Opt : o | empty ;",
		"S : Y A d ; Y : y | y d ; A : B C ; B : empty | b ; C : empty | c ;",
	} {
		if !have[w] {
			t.Errorf("fixed member missing: %s", w)
		}
	}
	// the text of the first fixed member, lexical part included
	for _, s := range q.specs {
		if s.Tier == "Q5-chains" {
			want := "a : 'a' ; b : 'b' ; c : 'c' ; p : 'p' ; x : 'x' ; !ws : ' ' ;\n\nTop : P S ;\nP : p ;\nS : A x ;\nA : B | a ;\nB : C | b ;\nC : c ;\n"
			if s.text() != want {
				t.Errorf("text = %q", s.text())
			}
			break
		}
	}
}

// The case ids of the pre-chains scopes must never change.
func TestStableIDs(t *testing.T) {
	q, _ := scopeSpecs("quick")
	ids := map[string]string{}
	for _, c := range buildCases(q.specs, 0) {
		ids[strings.TrimSpace(c.Spec.syntaxText())+"|"+strings.Join(c.Flags, " ")] = c.ID
	}
	for k, want := range map[string]string{
		"S : empty ;|":     "c4bba01b29d3",
		"S : S | b a ;|":   "39b55b743130",
		"S : S | S b ;|":   "39671a0cc9fd",
		"S : a S b ;|":     "49c7dd092bb3",
		"S : error a S ;|": "df8f47a3f7d5",
	} {
		if ids[k] != want {
			t.Errorf("id of %q = %s, want %s", k, ids[k], want)
		}
	}
}
