package main

import "testing"

func specOf(t *testing.T, src string) *GSpec {
	s, err := parseSyntaxText(src)
	if err != nil {
		t.Fatal(err)
	}
	return s
}

// Textbook examples with known sizes of the canonical LR(1) collection.
func TestCanonicalSizes(t *testing.T) {
	for _, tc := range []struct {
		src              string
		states, conflict int
	}{
		// Dragon book (2nd ed.) example 4.54: S -> C C, C -> c C | d : 10 states
		{"S : A A ; A : c A | d ;", 10, 0},
		// Dragon book example 4.48 (not SLR, but LR(1)): S -> L = R | R, L -> * R | id, R -> L : 14 states
		{"S : A eq B | B ; A : star B | id ; B : A ;", 14, 0},
		// dangling-else style ambiguity: shift/reduce conflict
		{"S : i S | i S e S | a ;", 0, 1},
		// S -> S | a : accept/reduce conflict
		{"S : S | a ;", 0, 1},
		// empty language grammar, still a finite automaton
		{"S : S a ;", 3, 0},
	} {
		g := specOf(t, tc.src).grammar()
		a := canonicalLR1(g)
		ci := a.conflicts()
		if tc.states != 0 && len(a.States) != tc.states {
			t.Errorf("%s: %d states, want %d", tc.src, len(a.States), tc.states)
		}
		if ci.States != tc.conflict {
			t.Errorf("%s: %d conflicting states, want %d", tc.src, ci.States, tc.conflict)
		}
	}
	g := specOf(t, "S : S | a ;").grammar()
	if !canonicalLR1(g).conflicts().AcceptInvolv {
		t.Error("S : S | a must have an accept conflict")
	}
}

func TestFirstNullable(t *testing.T) {
	g := specOf(t, "S : A B c ; A : a | empty ; B : b | empty ;").grammar()
	// NTs: S' S A B
	if g.nullable[1] || !g.nullable[2] || !g.nullable[3] {
		t.Errorf("nullable = %v", g.nullable)
	}
	want := map[string]bool{"a": true, "b": true, "c": true}
	for ti, name := range g.Terms {
		has := g.first[1]&(1<<uint(ti)) != 0
		if has != want[name] {
			t.Errorf("FIRST(S) membership of %s = %v", name, has)
		}
	}
}

func TestDerives(t *testing.T) {
	g := specOf(t, "S : a S b | empty ;").grammar()
	idx := map[string]int{}
	for i, n := range g.Terms {
		idx[n] = i
	}
	w := func(s string) []int {
		var r []int
		for _, c := range s {
			r = append(r, idx[string(c)])
		}
		return r
	}
	for s, want := range map[string]bool{"": true, "ab": true, "aabb": true, "a": false, "ba": false, "abab": false, "aab": false} {
		if got := derives(g, w(s)); got != want {
			t.Errorf("derives(%q) = %v, want %v", s, got, want)
		}
	}
	// cyclic and nullable: S -> S S | A ; A -> a | empty
	g = specOf(t, "S : S S | A ; A : a | empty ;").grammar()
	idx = map[string]int{}
	for i, n := range g.Terms {
		idx[n] = i
	}
	for s, want := range map[string]bool{"": true, "a": true, "aaa": true} {
		if got := derives(g, w(s)); got != want {
			t.Errorf("derives(%q) = %v, want %v", s, got, want)
		}
	}
}

func TestScopeSizes(t *testing.T) {
	q, _ := scopeSpecs("quick")
	if n := len(q.specs); n < 400 || n > 700 {
		t.Errorf("quick scope has %d grammars", n)
	}
	th, _ := scopeSpecs("thorough")
	if n := len(th.specs); n < 20000 {
		t.Errorf("thorough scope has %d grammars", n)
	}
	// thorough contains quick
	seen := map[string]bool{}
	for _, s := range th.specs {
		seen[s.text()] = true
	}
	for _, s := range q.specs {
		if !seen[s.text()] {
			t.Fatalf("quick grammar missing from thorough: %s", s.syntaxText())
		}
	}
	// ids are unique and independent of the seed
	a := buildCases(q.specs, 0)
	b := buildCases(q.specs, 7)
	ids := map[string]bool{}
	for _, c := range a {
		if ids[c.ID] {
			t.Fatalf("duplicate id %s", c.ID)
		}
		ids[c.ID] = true
	}
	for _, c := range b {
		if !ids[c.ID] {
			t.Fatalf("seed changed the case set")
		}
	}
	if len(a) != len(b) {
		t.Fatal("seed changed the number of cases")
	}
}
