package main

// TABLES mode: validate gocc's own front-end parser tables
// (internal/frontend/parser/tables.go) against the documented grammar
// spec/gocc2.ebnf.

import (
	"encoding/json"
	"flag"
	"fmt"
	"go/ast"
	goparser "go/parser"
	"os"
	"path/filepath"
	"regexp"
	"sort"
	"strconv"
	"strings"
	"unicode"
)

// ---- reader for the spec (gocc BNF) ---------------------------------------

type specProd struct {
	Head   string
	Body   []string // terminal and nonterminal names; string literals unquoted
	Action string   // text between << and >>, "" when absent
	Line   int
}

type specTok struct {
	kind byte // 'i' identifier, 's' string literal, 'a' action, 'p' punctuation
	text string
	line int
}

func lexSpec(src string) ([]specTok, error) {
	var toks []specTok
	line := 1
	rs := []rune(src)
	for i := 0; i < len(rs); {
		r := rs[i]
		switch {
		case r == '\n':
			line++
			i++
		case unicode.IsSpace(r):
			i++
		case r == '/' && i+1 < len(rs) && rs[i+1] == '/':
			for i < len(rs) && rs[i] != '\n' {
				i++
			}
		case r == '/' && i+1 < len(rs) && rs[i+1] == '*':
			j := i + 2
			for j+1 < len(rs) && !(rs[j] == '*' && rs[j+1] == '/') {
				if rs[j] == '\n' {
					line++
				}
				j++
			}
			if j+1 >= len(rs) {
				return nil, fmt.Errorf("line %d: unterminated comment", line)
			}
			i = j + 2
		case r == '<' && i+1 < len(rs) && rs[i+1] == '<':
			j := i + 2
			l0 := line
			for j+1 < len(rs) && !(rs[j] == '>' && rs[j+1] == '>') {
				if rs[j] == '\n' {
					line++
				}
				j++
			}
			if j+1 >= len(rs) {
				return nil, fmt.Errorf("line %d: unterminated << action", l0)
			}
			toks = append(toks, specTok{'a', strings.TrimSpace(string(rs[i+2 : j])), l0})
			i = j + 2
		case r == '"' || r == '`':
			j := i + 1
			for j < len(rs) && rs[j] != r {
				if r == '"' && rs[j] == '\\' {
					j++
				}
				j++
			}
			if j >= len(rs) {
				return nil, fmt.Errorf("line %d: unterminated string literal", line)
			}
			lit := string(rs[i : j+1])
			s, err := strconv.Unquote(lit)
			if err != nil {
				return nil, fmt.Errorf("line %d: bad string literal %s", line, lit)
			}
			toks = append(toks, specTok{'s', s, line})
			i = j + 1
		case unicode.IsLetter(r) || r == '_':
			j := i
			for j < len(rs) && (unicode.IsLetter(rs[j]) || unicode.IsDigit(rs[j]) || rs[j] == '_') {
				j++
			}
			toks = append(toks, specTok{'i', string(rs[i:j]), line})
			i = j
		case r == ':' || r == '|' || r == ';':
			toks = append(toks, specTok{'p', string(r), line})
			i++
		default:
			return nil, fmt.Errorf("line %d: unexpected character %q", line, r)
		}
	}
	return toks, nil
}

// parseSpec reads `Head : alt | alt << action >> ;` productions.  A leading
// `<< ... >>` (the file header) is skipped.
func parseSpec(src string) ([]specProd, error) {
	toks, err := lexSpec(src)
	if err != nil {
		return nil, err
	}
	i := 0
	if i < len(toks) && toks[i].kind == 'a' {
		i++ // file header
	}
	var prods []specProd
	for i < len(toks) {
		if toks[i].kind != 'i' {
			return nil, fmt.Errorf("line %d: expected production head, found %q", toks[i].line, toks[i].text)
		}
		head := toks[i].text
		i++
		if i >= len(toks) || toks[i].text != ":" || toks[i].kind != 'p' {
			return nil, fmt.Errorf("production %s: expected ':'", head)
		}
		i++
		cur := specProd{Head: head, Line: toks[i-1].line}
		for {
			if i >= len(toks) {
				return nil, fmt.Errorf("production %s: unexpected end of file", head)
			}
			t := toks[i]
			i++
			switch {
			case t.kind == 'p' && (t.text == "|" || t.text == ";"):
				prods = append(prods, cur)
				cur = specProd{Head: head, Line: t.line}
			case t.kind == 'p':
				return nil, fmt.Errorf("line %d: unexpected %q", t.line, t.text)
			case t.kind == 'a':
				if cur.Action != "" {
					return nil, fmt.Errorf("line %d: two actions in one alternative", t.line)
				}
				cur.Action = t.text
			default:
				if cur.Action != "" {
					return nil, fmt.Errorf("line %d: symbol after action", t.line)
				}
				cur.Body = append(cur.Body, t.text)
			}
			if t.kind == 'p' && t.text == ";" {
				break
			}
		}
	}
	return prods, nil
}

// ---- reader for the front-end tables --------------------------------------

type feProd struct {
	String     string
	Head       string
	NumSymbols int
	Ret        string
	// parsed from String
	SHead   string
	SBody   []string
	SAction string
	SOK     bool
}

type feTables struct {
	Prods      []feProd
	Actions    []map[int][]Act // per state: token type -> entries (several = duplicate keys)
	CanRecover []bool
	Goto       []map[string][]int
	Tokens     []string // token alphabet, index = token type
}

func readFrontend(repo string) (*feTables, error) {
	ft := &feTables{}
	_, f, err := parseFile(filepath.Join(repo, "internal", "frontend", "parser", "tables.go"))
	if err != nil {
		return nil, err
	}
	// ProductionsTable
	v := findVar(f, "ProductionsTable")
	if v == nil {
		return nil, fmt.Errorf("tables.go: ProductionsTable not found")
	}
	cl, err := compLit(v)
	if err != nil {
		return nil, err
	}
	for pi, el := range cl.Elts {
		pcl, err := compLit(el)
		if err != nil {
			return nil, fmt.Errorf("ProductionsTable[%d]: %v", pi, err)
		}
		fm, err := fields(pcl, []string{"String", "Head", "NumSymbols", "ReduceFunc"})
		if err != nil {
			return nil, fmt.Errorf("ProductionsTable[%d]: %v", pi, err)
		}
		for _, k := range []string{"String", "Head", "NumSymbols", "ReduceFunc"} {
			if fm[k] == nil {
				return nil, fmt.Errorf("ProductionsTable[%d]: field %s missing", pi, k)
			}
		}
		var p feProd
		if p.String, err = strLit(fm["String"]); err != nil {
			return nil, fmt.Errorf("ProductionsTable[%d].String: %v", pi, err)
		}
		if p.Head, err = strLit(fm["Head"]); err != nil {
			return nil, fmt.Errorf("ProductionsTable[%d].Head: %v", pi, err)
		}
		if p.NumSymbols, err = intLit(fm["NumSymbols"]); err != nil {
			return nil, fmt.Errorf("ProductionsTable[%d].NumSymbols: %v", pi, err)
		}
		if p.Ret, err = retString(fm["ReduceFunc"]); err != nil {
			return nil, fmt.Errorf("ProductionsTable[%d].ReduceFunc: %v", pi, err)
		}
		p.SHead, p.SBody, p.SAction, p.SOK = splitProdString(p.String)
		ft.Prods = append(ft.Prods, p)
	}
	// ActionTable
	v = findVar(f, "ActionTable")
	if v == nil {
		return nil, fmt.Errorf("tables.go: ActionTable not found")
	}
	cl, err = compLit(v)
	if err != nil {
		return nil, err
	}
	for si, el := range cl.Elts {
		rcl, err := compLit(el)
		if err != nil {
			return nil, fmt.Errorf("ActionTable[%d]: %v", si, err)
		}
		fm, err := fields(rcl, []string{"canRecover", "Actions"})
		if err != nil {
			return nil, fmt.Errorf("ActionTable[%d]: %v", si, err)
		}
		cr := false
		if fm["canRecover"] != nil {
			if cr, err = boolLit(fm["canRecover"]); err != nil {
				return nil, fmt.Errorf("ActionTable[%d]: %v", si, err)
			}
		}
		row := map[int][]Act{}
		if fm["Actions"] != nil {
			acl, err := compLit(fm["Actions"])
			if err != nil {
				return nil, fmt.Errorf("ActionTable[%d].Actions: %v", si, err)
			}
			next := 0
			for _, ael := range acl.Elts {
				key := next
				val := ael
				if kv, ok := ael.(*ast.KeyValueExpr); ok {
					if key, err = intLit(kv.Key); err != nil {
						return nil, fmt.Errorf("ActionTable[%d].Actions: key: %v", si, err)
					}
					val = kv.Value
				}
				next = key + 1
				a, err := actionExpr(val)
				if err != nil {
					return nil, fmt.Errorf("ActionTable[%d].Actions[%d]: %v", si, key, err)
				}
				if a.Kind == 'a' {
					a.N = 0
				}
				if a.Kind != 0 {
					row[key] = append(row[key], a)
				}
			}
		}
		ft.Actions = append(ft.Actions, row)
		ft.CanRecover = append(ft.CanRecover, cr)
	}
	// GotoTable
	v = findVar(f, "GotoTable")
	if v == nil {
		return nil, fmt.Errorf("tables.go: GotoTable not found")
	}
	cl, err = compLit(v)
	if err != nil {
		return nil, err
	}
	for si, el := range cl.Elts {
		rcl, err := compLit(el)
		if err != nil {
			return nil, fmt.Errorf("GotoTable[%d]: %v", si, err)
		}
		row := map[string][]int{}
		for _, gel := range rcl.Elts {
			kv, ok := gel.(*ast.KeyValueExpr)
			if !ok {
				return nil, fmt.Errorf("GotoTable[%d]: element without key", si)
			}
			k, err := strLit(kv.Key)
			if err != nil {
				return nil, fmt.Errorf("GotoTable[%d]: %v", si, err)
			}
			n, err := intLit(kv.Value)
			if err != nil {
				return nil, fmt.Errorf("GotoTable[%d][%s]: %v", si, k, err)
			}
			row[k] = append(row[k], n)
		}
		ft.Goto = append(ft.Goto, row)
	}

	// token alphabet: the strings NewMap adds first (end marker), then the
	// strings passed to NewMapFromStrings in tokens.go; AddToken ignores repeats.
	addTok := func(s string) {
		for _, o := range ft.Tokens {
			if o == s {
				return
			}
		}
		ft.Tokens = append(ft.Tokens, s)
	}
	_, tf, err := parseFile(filepath.Join(repo, "internal", "frontend", "token", "token.go"))
	if err != nil {
		return nil, err
	}
	for _, d := range tf.Decls {
		fd, ok := d.(*ast.FuncDecl)
		if !ok || fd.Name.Name != "NewMap" || fd.Recv != nil || fd.Body == nil {
			continue
		}
		ast.Inspect(fd.Body, func(n ast.Node) bool {
			if c, ok := n.(*ast.CallExpr); ok {
				if se, ok := c.Fun.(*ast.SelectorExpr); ok && se.Sel.Name == "AddToken" && len(c.Args) == 1 {
					if s, err := strLit(c.Args[0]); err == nil {
						addTok(s)
					}
				}
			}
			return true
		})
	}
	if len(ft.Tokens) != 1 {
		return nil, fmt.Errorf("token.go: expected NewMap to add exactly the end marker, found %q", ft.Tokens)
	}
	_, kf, err := parseFile(filepath.Join(repo, "internal", "frontend", "token", "tokens.go"))
	if err != nil {
		return nil, err
	}
	v = findVar(kf, "FRONTENDTokens")
	if v == nil {
		return nil, fmt.Errorf("tokens.go: FRONTENDTokens not found")
	}
	call, ok := v.(*ast.CallExpr)
	if !ok || len(call.Args) != 1 {
		return nil, fmt.Errorf("tokens.go: FRONTENDTokens is not a call with one argument")
	}
	if id, ok := call.Fun.(*ast.Ident); !ok || id.Name != "NewMapFromStrings" {
		return nil, fmt.Errorf("tokens.go: FRONTENDTokens is not built by NewMapFromStrings")
	}
	lcl, err := compLit(call.Args[0])
	if err != nil {
		return nil, fmt.Errorf("tokens.go: %v", err)
	}
	for _, el := range lcl.Elts {
		s, err := strLit(el)
		if err != nil {
			return nil, fmt.Errorf("tokens.go: %v", err)
		}
		addTok(s)
	}
	return ft, nil
}

// splitProdString parses `Head : sym sym ... [<< action >>] ;`.
func splitProdString(s string) (head string, body []string, action string, ok bool) {
	s = strings.TrimSpace(s)
	if !strings.HasSuffix(s, ";") {
		return
	}
	s = strings.TrimSpace(strings.TrimSuffix(s, ";"))
	if i := strings.Index(s, "<<"); i >= 0 {
		a := strings.TrimSpace(s[i:])
		if !strings.HasSuffix(a, ">>") {
			return
		}
		action = strings.TrimSpace(a[2 : len(a)-2])
		s = strings.TrimSpace(s[:i])
	}
	fs := strings.Fields(s)
	if len(fs) < 2 || fs[1] != ":" {
		return
	}
	return fs[0], fs[2:], action, true
}

var dollarRE = regexp.MustCompile(`\$([0-9]+)`)

// normReturn parses "return <exprs>" and prints it in canonical form.
func normReturn(exprs string) (string, error) {
	src := "package p\nfunc f() {\nreturn " + exprs + "\n}\n"
	f, err := goparser.ParseFile(newFset(), "action.go", src, 0)
	if err != nil {
		return "", err
	}
	fd := f.Decls[0].(*ast.FuncDecl)
	if len(fd.Body.List) != 1 {
		return "", fmt.Errorf("action is not a single expression list")
	}
	return exprString(fd.Body.List[0]), nil
}

// ---- result ----------------------------------------------------------------

type TMismatch struct {
	Kind     string `json:"kind"`
	State    int    `json:"state"`
	Symbol   string `json:"symbol"`
	Expected string `json:"expected"`
	Found    string `json:"found"`
	Msg      string `json:"msg,omitempty"`
}

type TablesResult struct {
	States         int               `json:"states"`
	Terminals      int               `json:"terminals"`
	Nonterminals   int               `json:"nonterminals"`
	CellsChecked   int               `json:"cells_checked"`
	ActionCells    int               `json:"action_cells"`
	GotoCells      int               `json:"goto_cells"`
	Productions    int               `json:"productions"`
	Items          int               `json:"annotation_items"`
	Mismatches     []TMismatch       `json:"mismatches"`
	ProdBijection  bool              `json:"production_bijection"`
	IndexMap       map[string]int    `json:"index_map"`
	IndexMapDetail map[string]string `json:"index_map_detail"`
	ErrorShift     []int             `json:"error_shift_states"`
	CanRecoverRows []int             `json:"canrecover_rows"`
	GrammarSource  string            `json:"grammar_source"`
	CanonicalLR1   int               `json:"canonical_lr1_states"` // informational: size of the canonical collection of the grammar
}

func tablesMain(args []string) int {
	fs := flag.NewFlagSet("tables", flag.ExitOnError)
	repo := fs.String("repo", "/repo", "gocc source tree")
	out := fs.String("out", "", "result file (default stdout)")
	fs.Parse(args)

	res, err := validateFrontend(*repo)
	if err != nil {
		fmt.Fprintln(os.Stderr, "lrref tables:", err)
		return 2
	}
	buf, _ := json.MarshalIndent(res, "", "  ")
	buf = append(buf, '\n')
	if *out == "" || *out == "-" {
		os.Stdout.Write(buf)
	} else if err := os.WriteFile(*out, buf, 0o644); err != nil {
		fmt.Fprintln(os.Stderr, "lrref:", err)
		return 2
	}
	fmt.Fprintf(os.Stderr, "lrref tables: states=%d cells_checked=%d productions=%d bijection=%v mismatches=%d error_shift_states=%v canrecover_rows=%v\n",
		res.States, res.CellsChecked, res.Productions, res.ProdBijection, len(res.Mismatches), res.ErrorShift, res.CanRecoverRows)
	if len(res.Mismatches) > 0 || !res.ProdBijection {
		return 1
	}
	return 0
}

func isSpecNonterminal(name string) bool {
	r := []rune(name)
	return len(r) > 0 && unicode.IsUpper(r[0])
}

func validateFrontend(repo string) (*TablesResult, error) {
	ft, err := readFrontend(repo)
	if err != nil {
		return nil, err
	}
	specSrc, err := os.ReadFile(filepath.Join(repo, "spec", "gocc2.ebnf"))
	if err != nil {
		return nil, err
	}
	sprods, err := parseSpec(string(specSrc))
	if err != nil {
		return nil, fmt.Errorf("spec/gocc2.ebnf: %v", err)
	}
	if len(sprods) == 0 {
		return nil, fmt.Errorf("spec/gocc2.ebnf: no productions")
	}
	res := &TablesResult{Mismatches: []TMismatch{}, IndexMap: map[string]int{}, IndexMapDetail: map[string]string{},
		ErrorShift: []int{}, CanRecoverRows: []int{}, States: len(ft.Actions), Productions: len(ft.Prods)}
	mm := func(kind string, state int, sym, exp, found, msg string) {
		res.Mismatches = append(res.Mismatches, TMismatch{kind, state, sym, exp, found, msg})
	}

	// ---- (P) productions -------------------------------------------------
	if len(ft.Prods) == 0 {
		return nil, fmt.Errorf("tables.go: empty ProductionsTable")
	}
	key := func(h string, b []string) string { return h + " : " + strings.Join(b, " ") }
	// internal consistency of each table entry
	for i, p := range ft.Prods {
		if !p.SOK {
			mm("production", -1, "", "Head : body [<< action >>] ;", p.String, fmt.Sprintf("ProductionsTable[%d].String cannot be parsed", i))
			continue
		}
		if p.SHead != p.Head {
			mm("production", -1, "", p.Head, p.SHead, fmt.Sprintf("ProductionsTable[%d]: Head field differs from String", i))
		}
		if p.NumSymbols != len(p.SBody) {
			mm("production", -1, "", strconv.Itoa(len(p.SBody)), strconv.Itoa(p.NumSymbols),
				fmt.Sprintf("ProductionsTable[%d] (%s): NumSymbols differs from body length", i, key(p.SHead, p.SBody)))
		}
	}
	// entry 0 must be the augmentation S' -> Start
	start := sprods[0].Head
	if p0 := ft.Prods[0]; !p0.SOK || len(p0.SBody) != 1 || p0.SBody[0] != start {
		mm("production", -1, "", "<start'> : "+start, ft.Prods[0].String, "ProductionsTable[0] is not the augmented start production")
	}
	for i, p := range ft.Prods[1:] {
		if p.Head == ft.Prods[0].Head {
			mm("production", -1, "", "", p.String, fmt.Sprintf("ProductionsTable[%d] reuses the augmented start symbol", i+1))
		}
	}
	if want := "return X[0], nil"; ft.Prods[0].Ret != want {
		mm("action", -1, "", want, ft.Prods[0].Ret, "ReduceFunc of the augmented start production")
	}
	// bijection by head and body
	tabIdx := map[string][]int{}
	for i, p := range ft.Prods {
		if i == 0 || !p.SOK {
			continue
		}
		tabIdx[key(p.SHead, p.SBody)] = append(tabIdx[key(p.SHead, p.SBody)], i)
	}
	bij := true
	specToTab := make([]int, len(sprods)+1) // spec index (S' = 0) -> table index
	specToTab[0] = 0
	res.IndexMap["0"] = 0
	res.IndexMapDetail["0"] = "<augmented start> : " + start
	used := map[int]bool{0: true}
	seenSpec := map[string]int{}
	for si, sp := range sprods {
		k := key(sp.Head, sp.Body)
		specToTab[si+1] = -1
		if o, dup := seenSpec[k]; dup {
			bij = false
			mm("production", -1, "", "", k, fmt.Sprintf("spec production %d repeats spec production %d", si+1, o))
			continue
		}
		seenSpec[k] = si + 1
		is := tabIdx[k]
		switch len(is) {
		case 0:
			bij = false
			mm("production", -1, "", k, "", fmt.Sprintf("spec production %d (line %d) has no counterpart in ProductionsTable", si+1, sp.Line))
			continue
		case 1:
		default:
			bij = false
			mm("production", -1, "", k, fmt.Sprint(is), fmt.Sprintf("spec production %d occurs %d times in ProductionsTable", si+1, len(is)))
		}
		ti := is[0]
		specToTab[si+1] = ti
		used[ti] = true
		res.IndexMap[strconv.Itoa(si+1)] = ti
		res.IndexMapDetail[strconv.Itoa(si+1)] = k
		// semantic action
		tp := ft.Prods[ti]
		want := "X[0], nil"
		if sp.Action != "" {
			want = dollarRE.ReplaceAllString(sp.Action, "X[$1]")
		}
		wantRet, err := normReturn(want)
		if err != nil {
			mm("action", -1, "", want, tp.Ret, fmt.Sprintf("spec action of production %d (%s) does not parse: %v", si+1, k, err))
		} else if wantRet != tp.Ret {
			mm("action", -1, "", wantRet, tp.Ret, fmt.Sprintf("ReduceFunc of ProductionsTable[%d] (%s) differs from the spec action", ti, k))
		}
		if sp.Action != "" {
			if sa, err := normReturn(tp.SAction); err != nil || sa != wantRet {
				mm("action", -1, "", wantRet, "return "+tp.SAction, fmt.Sprintf("action text inside ProductionsTable[%d].String (%s) differs from the spec action", ti, k))
			}
		}
	}
	for i := range ft.Prods {
		if !used[i] {
			bij = false
			mm("production", -1, "", "", ft.Prods[i].String, fmt.Sprintf("ProductionsTable[%d] has no counterpart in the spec", i))
		}
	}
	if len(ft.Prods) != len(sprods)+1 {
		bij = false
	}
	res.ProdBijection = bij

	// ---- grammar for (V): the SPEC grammar when the bijection holds --------
	tokIdx := map[string]int{}
	for i, t := range ft.Tokens {
		tokIdx[t] = i
	}
	g := &Grammar{Terms: append([]string{}, ft.Tokens...)}
	endIdx, okEnd := tokIdx["␚"]
	if !okEnd {
		return nil, fmt.Errorf("token alphabet has no end marker: %q", ft.Tokens)
	}
	g.End = endIdx
	type gp struct {
		head string
		body []string
	}
	var gps []gp
	prodTabIndex := []int{} // grammar production -> table production index
	if bij {
		res.GrammarSource = "spec/gocc2.ebnf"
		gps = append(gps, gp{ft.Prods[0].Head, []string{start}})
		prodTabIndex = append(prodTabIndex, 0)
		for si, sp := range sprods {
			gps = append(gps, gp{sp.Head, sp.Body})
			prodTabIndex = append(prodTabIndex, specToTab[si+1])
		}
	} else {
		res.GrammarSource = "ProductionsTable strings (no bijection with the spec)"
		for i, p := range ft.Prods {
			if !p.SOK {
				return res, nil
			}
			gps = append(gps, gp{p.SHead, p.SBody})
			prodTabIndex = append(prodTabIndex, i)
		}
	}
	ntIdx := map[string]int{}
	for _, p := range gps {
		if _, ok := ntIdx[p.head]; !ok {
			ntIdx[p.head] = len(g.NTs)
			g.NTs = append(g.NTs, p.head)
		}
	}
	nT := len(g.Terms)
	for pi, p := range gps {
		body := []int{}
		for _, s := range p.body {
			if n, ok := ntIdx[s]; ok {
				body = append(body, nT+n)
				continue
			}
			t, ok := tokIdx[s]
			if !ok || (bij && isSpecNonterminal(s)) {
				mm("production", -1, s, "", "", fmt.Sprintf("symbol %q in production %d (%s) is neither a defined nonterminal nor a token of FRONTENDTokens", s, pi, key(p.head, p.body)))
				return res, nil
			}
			body = append(body, t)
		}
		g.Prods = append(g.Prods, Prod{Head: ntIdx[p.head], Body: body})
	}
	if err := g.prepare(); err != nil {
		return nil, err
	}
	res.Terminals, res.Nonterminals = g.nT, len(g.NTs)
	res.CanonicalLR1 = len(canonicalLR1(g).States)

	// ---- (V) least item-set annotation --------------------------------------
	nS := len(ft.Actions)
	if len(ft.Goto) != nS {
		mm("shape", -1, "", strconv.Itoa(nS), strconv.Itoa(len(ft.Goto)), "GotoTable and ActionTable have different numbers of rows")
		return res, nil
	}
	if nS == 0 {
		return nil, fmt.Errorf("empty ActionTable")
	}
	// transition function of the table
	trans := func(s, sym int) (int, bool) {
		if g.isTerm(sym) {
			for _, a := range ft.Actions[s][sym] {
				if a.Kind == 's' {
					return a.N, a.N >= 0 && a.N < nS
				}
			}
			return 0, false
		}
		ts := ft.Goto[s][g.NTs[g.ntOf(sym)]]
		if len(ts) == 0 {
			return 0, false
		}
		return ts[0], ts[0] >= 0 && ts[0] < nS
	}
	I := make([]map[int]struct{}, nS)
	for s := range I {
		I[s] = map[int]struct{}{}
	}
	I[0][g.code(0, 0, g.End)] = struct{}{}
	g.closure(I[0])
	dirty := []int{0}
	inq := make([]bool, nS)
	inq[0] = true
	for len(dirty) > 0 {
		s := dirty[0]
		dirty = dirty[1:]
		inq[s] = false
		grew := map[int]bool{}
		for it := range I[s] {
			p, dot, la := g.decode(it)
			body := g.Prods[p].Body
			if dot >= len(body) {
				continue
			}
			t, ok := trans(s, body[dot])
			if !ok {
				continue // reported by the cell check below
			}
			m := g.code(p, dot+1, la)
			if _, have := I[t][m]; !have {
				I[t][m] = struct{}{}
				grew[t] = true
			}
		}
		var ts []int
		for t := range grew {
			ts = append(ts, t)
		}
		sort.Ints(ts)
		for _, t := range ts {
			g.closure(I[t])
			if !inq[t] {
				inq[t] = true
				dirty = append(dirty, t)
			}
		}
	}

	// reachability through shift and goto entries
	reach := make([]bool, nS)
	reach[0] = true
	stack := []int{0}
	for len(stack) > 0 {
		s := stack[len(stack)-1]
		stack = stack[:len(stack)-1]
		visit := func(t int) {
			if t >= 0 && t < nS && !reach[t] {
				reach[t] = true
				stack = append(stack, t)
			}
		}
		for _, as := range ft.Actions[s] {
			for _, a := range as {
				if a.Kind == 's' {
					visit(a.N)
				}
			}
		}
		for _, ts := range ft.Goto[s] {
			for _, t := range ts {
				visit(t)
			}
		}
	}

	tabProdOf := func(gpIdx int) int { return prodTabIndex[gpIdx] }
	for s := 0; s < nS; s++ {
		items := sortedKeys(I[s])
		res.Items += len(items)
		if !reach[s] {
			mm("unreachable", s, "", "reachable from state 0", "unreachable", "")
		}
		if len(items) == 0 && reach[s] {
			mm("unreachable", s, "", "non-empty item set", "empty item set", "state is entered only by transitions that no item justifies")
		}
		// action cells
		for key := range ft.Actions[s] {
			if key < 0 || key >= g.nT {
				mm("action-cell", s, strconv.Itoa(key), "nil", fmt.Sprint(ft.Actions[s][key]), "token type outside the alphabet")
			}
		}
		for t := 0; t < g.nT; t++ {
			res.ActionCells++
			c := g.candidates(items, t)
			var exp []string
			if c.Shift {
				exp = append(exp, "Shift")
			}
			for _, r := range c.Reduces {
				exp = append(exp, fmt.Sprintf("Reduce(%d)", tabProdOf(r)))
			}
			if c.Accept {
				exp = append(exp, "Accept")
			}
			found := ft.Actions[s][t]
			foundStr := "nil"
			if len(found) > 0 {
				var fsx []string
				for _, a := range found {
					fsx = append(fsx, feActString(a))
				}
				foundStr = strings.Join(fsx, " & ")
			}
			expStr := "nil"
			if len(exp) > 0 {
				expStr = strings.Join(exp, " / ")
			}
			ok := true
			switch {
			case len(found) > 1:
				ok = false
			case len(exp) > 1:
				ok = false
			case len(exp) == 0:
				ok = len(found) == 0
			case len(found) == 0:
				ok = false
			default:
				a := found[0]
				switch {
				case c.Shift:
					ok = a.Kind == 's' && a.N >= 0 && a.N < nS
				case c.Accept:
					ok = a.Kind == 'a'
				default:
					ok = a.Kind == 'r' && a.N == tabProdOf(c.Reduces[0])
				}
			}
			if !ok {
				msg := ""
				if len(exp) > 1 {
					msg = "conflict: the annotation gives two candidate actions"
				}
				mm("action-cell", s, g.Terms[t], expStr, foundStr, msg)
			}
		}
		// goto cells
		for k, ts := range ft.Goto[s] {
			if _, ok := ntIdx[k]; !ok {
				mm("goto-cell", s, k, "none", fmt.Sprint(ts), "goto entry for a symbol that is not a nonterminal of the grammar")
			}
		}
		for n := range g.NTs {
			res.GotoCells++
			need := false
			for _, it := range items {
				p, dot, _ := g.decode(it)
				b := g.Prods[p].Body
				if dot < len(b) && b[dot] == g.nT+n {
					need = true
				}
			}
			ts := ft.Goto[s][g.NTs[n]]
			switch {
			case len(ts) > 1:
				mm("goto-cell", s, g.NTs[n], "one entry", fmt.Sprint(ts), "duplicate key")
			case need && len(ts) == 0:
				mm("goto-cell", s, g.NTs[n], "defined", "none", "")
			case need && (ts[0] < 0 || ts[0] >= nS):
				mm("goto-cell", s, g.NTs[n], "defined", strconv.Itoa(ts[0]), "target out of range")
			case !need && len(ts) == 1:
				mm("goto-cell", s, g.NTs[n], "none", strconv.Itoa(ts[0]), "")
			}
		}
		// report
		if t, ok := tokIdx["error"]; ok {
			for _, a := range ft.Actions[s][t] {
				if a.Kind == 's' {
					res.ErrorShift = append(res.ErrorShift, s)
					break
				}
			}
		}
		if ft.CanRecover[s] {
			res.CanRecoverRows = append(res.CanRecoverRows, s)
		}
	}
	res.CellsChecked = res.ActionCells + res.GotoCells
	return res, nil
}

func feActString(a Act) string {
	switch a.Kind {
	case 's':
		return fmt.Sprintf("Shift(%d)", a.N)
	case 'r':
		return fmt.Sprintf("Reduce(%d)", a.N)
	case 'a':
		return "Accept"
	}
	return "nil"
}
