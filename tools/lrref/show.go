package main

// `lrref show 'S : A b | a ; A : empty ;'` prints the reference automaton of
// a grammar given by its syntax part (names starting with an upper-case letter
// are nonterminals, everything else is a terminal).  It exists for checking
// the reference by hand.

import (
	"fmt"
	"os"
	"sort"
	"strings"
)

// parseSyntaxText reads a syntax part (`Head : alt | alt ; ...`, any
// nonterminal names starting with an upper-case letter) and supplies the
// lexical part: one single-character token per terminal name, sorted.
func parseSyntaxText(src string) (*GSpec, error) {
	s, err := readGrammar(src)
	if err != nil {
		return nil, err
	}
	s.Raw = ""
	seen := map[string]bool{}
	heads := map[string]bool{}
	for _, p := range s.Flat {
		heads[p.Head] = true
	}
	s.Lex = []string{}
	for _, p := range s.Flat {
		for _, sym := range p.Body {
			if heads[sym] || sym == "error" || seen[sym] {
				continue
			}
			seen[sym] = true
			s.Lex = append(s.Lex, sym)
		}
	}
	sort.Strings(s.Lex)
	// group the alternatives per head when every head's productions are contiguous
	var names []string
	var alts [][][]string
	closed := map[string]bool{}
	grouped := true
	for _, p := range s.Flat {
		if len(names) == 0 || names[len(names)-1] != p.Head {
			if closed[p.Head] {
				grouped = false
				break
			}
			if len(names) > 0 {
				closed[names[len(names)-1]] = true
			}
			names = append(names, p.Head)
			alts = append(alts, nil)
		}
		for k := range p.Body {
			if p.Disp[k] != p.Body[k] {
				grouped = false // string literal: keep the flat form with its display text
			}
		}
		alts[len(alts)-1] = append(alts[len(alts)-1], p.Body)
	}
	if grouped {
		s.Names, s.Alts, s.Flat = names, alts, nil
	}
	return s, nil
}

func showMain(args []string) int {
	if len(args) != 1 {
		usage()
		return 2
	}
	src := args[0]
	if b, err := os.ReadFile(src); err == nil {
		src = string(b)
	}
	spec, err := parseSyntaxText(src)
	if err != nil {
		fmt.Fprintln(os.Stderr, "lrref show:", err)
		return 2
	}
	g := spec.grammar()
	a := canonicalLR1(g)
	fmt.Print(spec.text())
	fmt.Println()
	for i := range g.Prods {
		fmt.Printf("P%d  %s\n", i, g.prodString(i))
	}
	for n, name := range g.NTs {
		var f []string
		for t := 0; t < g.nT; t++ {
			if g.first[n]&(uint64(1)<<uint(t)) != 0 {
				f = append(f, g.Terms[t])
			}
		}
		fmt.Printf("FIRST(%s) = {%s} nullable=%v\n", name, strings.Join(f, " "), g.nullable[n])
	}
	for si, st := range a.States {
		fmt.Printf("\nstate %d\n", si)
		for _, it := range st.Items {
			fmt.Printf("  %s\n", g.itemString(it))
		}
		var syms []int
		for x := range st.Trans {
			syms = append(syms, x)
		}
		sort.Ints(syms)
		for _, x := range syms {
			fmt.Printf("  --%s--> %d\n", g.symName(x), st.Trans[x])
		}
		for t := 0; t < g.nT; t++ {
			if c := g.candidates(st.Items, t); c.count() > 0 {
				mark := ""
				if c.count() > 1 {
					mark = "   <== CONFLICT"
				}
				fmt.Printf("  on %-6s %s%s\n", g.Terms[t], c.describe(), mark)
			}
		}
	}
	ci := a.conflicts()
	fmt.Printf("\n%d states, %d conflicting states, %d conflicting cells, accept involved: %v\n", len(a.States), ci.States, ci.Cells, ci.AcceptInvolv)
	return 0
}
