package main

// `lrref show 'S : A b | a ; A : empty ;'` prints the reference automaton of
// a grammar given in the restricted form used by the sweep (nonterminals
// S, A, B; everything else is a terminal).  It exists for checking the
// reference by hand.

import (
	"fmt"
	"os"
	"sort"
	"strings"
)

func parseSyntaxText(src string) (*GSpec, error) {
	s := &GSpec{Tier: "manual"}
	rules := strings.Split(src, ";")
	for _, r := range rules {
		r = strings.TrimSpace(r)
		if r == "" {
			continue
		}
		hb := strings.SplitN(r, ":", 2)
		if len(hb) != 2 {
			return nil, fmt.Errorf("bad rule %q", r)
		}
		head := strings.TrimSpace(hb[0])
		if len(s.Alts) >= len(ntNames) || head != ntNames[len(s.Alts)] {
			return nil, fmt.Errorf("rule %d must define %v in this order, found %q", len(s.Alts)+1, ntNames, head)
		}
		var alts [][]string
		for _, a := range strings.Split(hb[1], "|") {
			f := strings.Fields(a)
			if len(f) == 1 && f[0] == "empty" {
				f = []string{}
			}
			alts = append(alts, f)
		}
		s.Alts = append(s.Alts, alts)
	}
	if len(s.Alts) == 0 {
		return nil, fmt.Errorf("no rules")
	}
	for _, alts := range s.Alts {
		for _, a := range alts {
			for _, sym := range a {
				for i, n := range ntNames {
					if sym == n && i >= len(s.Alts) {
						return nil, fmt.Errorf("nonterminal %s is used but not defined", sym)
					}
				}
			}
		}
	}
	return s, nil
}

func showMain(args []string) int {
	if len(args) != 1 {
		usage()
		return 2
	}
	src := args[0]
	if b, err := os.ReadFile(src); err == nil {
		src = string(b)
	}
	spec, err := parseSyntaxText(src)
	if err != nil {
		fmt.Fprintln(os.Stderr, "lrref show:", err)
		return 2
	}
	g := spec.grammar()
	a := canonicalLR1(g)
	fmt.Print(spec.text())
	fmt.Println()
	for i := range g.Prods {
		fmt.Printf("P%d  %s\n", i, g.prodString(i))
	}
	for n, name := range g.NTs {
		var f []string
		for t := 0; t < g.nT; t++ {
			if g.first[n]&(uint64(1)<<uint(t)) != 0 {
				f = append(f, g.Terms[t])
			}
		}
		fmt.Printf("FIRST(%s) = {%s} nullable=%v\n", name, strings.Join(f, " "), g.nullable[n])
	}
	for si, st := range a.States {
		fmt.Printf("\nstate %d\n", si)
		for _, it := range st.Items {
			fmt.Printf("  %s\n", g.itemString(it))
		}
		var syms []int
		for x := range st.Trans {
			syms = append(syms, x)
		}
		sort.Ints(syms)
		for _, x := range syms {
			fmt.Printf("  --%s--> %d\n", g.symName(x), st.Trans[x])
		}
		for t := 0; t < g.nT; t++ {
			if c := g.candidates(st.Items, t); c.count() > 0 {
				mark := ""
				if c.count() > 1 {
					mark = "   <== CONFLICT"
				}
				fmt.Printf("  on %-6s %s%s\n", g.Terms[t], c.describe(), mark)
			}
		}
	}
	ci := a.conflicts()
	fmt.Printf("\n%d states, %d conflicting states, %d conflicting cells, accept involved: %v\n", len(a.States), ci.States, ci.Cells, ci.AcceptInvolv)
	return 0
}
