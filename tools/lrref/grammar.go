package main

// Textbook context-free grammar machinery: nullable / FIRST sets, LR(1)
// closure and goto, the canonical LR(1) collection, and the candidate
// actions of a (state, terminal) cell.  Written from the definitions in
// Aho/Sethi/Ullman ch. 4.7 ("canonical LR(1) items"); nothing here is derived
// from gocc's implementation.

import (
	"fmt"
	"sort"
	"strings"
)

// Prod is a production Head -> Body.  Head is a nonterminal index; the body
// holds symbol codes: a terminal t is coded as t, a nonterminal n as nT+n.
type Prod struct {
	Head int
	Body []int
}

// Grammar is an augmented grammar: NTs[0] is the fresh start symbol S' and
// Prods[0] is S' -> S.  Terms[End] is the end-of-input marker.
type Grammar struct {
	Terms []string
	NTs   []string
	Prods []Prod
	End   int
	// ProdDisp, when set, is the text of each production as gocc prints it
	// (string literals quoted); prodString falls back to the symbol names.
	ProdDisp []string

	// derived
	nT       int
	maxBody  int
	byHead   [][]int // productions per nonterminal
	nullable []bool
	first    []uint64 // FIRST set per nonterminal as a bit set over terminals
}

func (g *Grammar) isTerm(sym int) bool { return sym < g.nT }
func (g *Grammar) ntOf(sym int) int    { return sym - g.nT }
func (g *Grammar) symName(sym int) string {
	if g.isTerm(sym) {
		return g.Terms[sym]
	}
	return g.NTs[sym-g.nT]
}

func (g *Grammar) prodString(p int) string {
	if p < len(g.ProdDisp) {
		return g.ProdDisp[p]
	}
	pr := g.Prods[p]
	var b []string
	for _, s := range pr.Body {
		b = append(b, g.symName(s))
	}
	if len(b) == 0 {
		b = []string{"empty"}
	}
	return g.NTs[pr.Head] + " : " + strings.Join(b, " ")
}

// prepare computes the derived data.  It fails when the terminal alphabet does
// not fit the bit-set representation.
func (g *Grammar) prepare() error {
	g.nT = len(g.Terms)
	if g.nT > 64 {
		return fmt.Errorf("too many terminals (%d > 64)", g.nT)
	}
	g.maxBody = 0
	g.byHead = make([][]int, len(g.NTs))
	for i, p := range g.Prods {
		if len(p.Body) > g.maxBody {
			g.maxBody = len(p.Body)
		}
		g.byHead[p.Head] = append(g.byHead[p.Head], i)
	}
	// nullable and FIRST: least fixed point of
	//   nullable(A)  if some A -> X1..Xk with all Xi nullable (k may be 0)
	//   FIRST(A) >= FIRST(Xi) if A -> X1..Xk and X1..X(i-1) nullable
	g.nullable = make([]bool, len(g.NTs))
	g.first = make([]uint64, len(g.NTs))
	for changed := true; changed; {
		changed = false
		for _, p := range g.Prods {
			allNullable := true
			for _, s := range p.Body {
				var f uint64
				var n bool
				if g.isTerm(s) {
					f, n = uint64(1)<<uint(s), false
				} else {
					f, n = g.first[g.ntOf(s)], g.nullable[g.ntOf(s)]
				}
				if g.first[p.Head]|f != g.first[p.Head] {
					g.first[p.Head] |= f
					changed = true
				}
				if !n {
					allNullable = false
					break
				}
			}
			if allNullable && !g.nullable[p.Head] {
				g.nullable[p.Head] = true
				changed = true
			}
		}
	}
	return nil
}

// firstOfSeq returns FIRST(seq la) for a symbol string seq followed by the
// single terminal la.
func (g *Grammar) firstOfSeq(seq []int, la int) uint64 {
	var f uint64
	for _, s := range seq {
		if g.isTerm(s) {
			return f | uint64(1)<<uint(s)
		}
		f |= g.first[g.ntOf(s)]
		if !g.nullable[g.ntOf(s)] {
			return f
		}
	}
	return f | uint64(1)<<uint(la)
}

// An LR(1) item [P: A -> alpha . beta, LA] is coded as one int.
func (g *Grammar) code(p, dot, la int) int { return (p*(g.maxBody+1)+dot)*g.nT + la }
func (g *Grammar) decode(c int) (p, dot, la int) {
	la = c % g.nT
	c /= g.nT
	dot = c % (g.maxBody + 1)
	p = c / (g.maxBody + 1)
	return
}

func (g *Grammar) itemString(c int) string {
	p, dot, la := g.decode(c)
	pr := g.Prods[p]
	var b []string
	for i, s := range pr.Body {
		if i == dot {
			b = append(b, ".")
		}
		b = append(b, g.symName(s))
	}
	if dot == len(pr.Body) {
		b = append(b, ".")
	}
	return fmt.Sprintf("[%s -> %s, %s]", g.NTs[pr.Head], strings.Join(b, " "), g.Terms[la])
}

// closure extends set in place to its LR(1) closure: for every item
// [A -> alpha . B beta, a], every production B -> gamma and every terminal b
// in FIRST(beta a), the item [B -> . gamma, b] is added.  It reports whether
// the set grew.
func (g *Grammar) closure(set map[int]struct{}) bool {
	work := make([]int, 0, len(set))
	for c := range set {
		work = append(work, c)
	}
	grew := false
	for len(work) > 0 {
		c := work[len(work)-1]
		work = work[:len(work)-1]
		p, dot, la := g.decode(c)
		body := g.Prods[p].Body
		if dot >= len(body) || g.isTerm(body[dot]) {
			continue
		}
		f := g.firstOfSeq(body[dot+1:], la)
		for _, q := range g.byHead[g.ntOf(body[dot])] {
			for b := 0; b < g.nT; b++ {
				if f&(uint64(1)<<uint(b)) == 0 {
					continue
				}
				n := g.code(q, 0, b)
				if _, ok := set[n]; !ok {
					set[n] = struct{}{}
					work = append(work, n)
					grew = true
				}
			}
		}
	}
	return grew
}

// State of the canonical collection.
type State struct {
	Items []int       // closed item set, sorted
	Trans map[int]int // symbol code -> state
}

type Automaton struct {
	G      *Grammar
	States []*State
}

func sortedKeys(set map[int]struct{}) []int {
	r := make([]int, 0, len(set))
	for c := range set {
		r = append(r, c)
	}
	sort.Ints(r)
	return r
}

func keyOf(items []int) string {
	var sb strings.Builder
	for _, c := range items {
		fmt.Fprintf(&sb, "%d,", c)
	}
	return sb.String()
}

// canonicalLR1 builds the canonical collection of sets of LR(1) items:
// C = { closure({[S' -> . S, $]}) }, repeatedly adding goto(I, X) for every
// I in C and grammar symbol X with goto(I, X) non-empty.
func canonicalLR1(g *Grammar) *Automaton {
	a := &Automaton{G: g}
	index := map[string]int{}
	add := func(set map[int]struct{}) int {
		g.closure(set)
		items := sortedKeys(set)
		k := keyOf(items)
		if i, ok := index[k]; ok {
			return i
		}
		index[k] = len(a.States)
		a.States = append(a.States, &State{Items: items, Trans: map[int]int{}})
		return len(a.States) - 1
	}
	add(map[int]struct{}{g.code(0, 0, g.End): {}})
	nSym := g.nT + len(g.NTs)
	for i := 0; i < len(a.States); i++ {
		st := a.States[i]
		// goto(I, X) = closure of { [A -> alpha X . beta, a] | [A -> alpha . X beta, a] in I }
		kernels := make([]map[int]struct{}, nSym)
		for _, c := range st.Items {
			p, dot, la := g.decode(c)
			body := g.Prods[p].Body
			if dot < len(body) {
				x := body[dot]
				if kernels[x] == nil {
					kernels[x] = map[int]struct{}{}
				}
				kernels[x][g.code(p, dot+1, la)] = struct{}{}
			}
		}
		for x := 0; x < nSym; x++ {
			if kernels[x] != nil {
				st.Trans[x] = add(kernels[x])
			}
		}
	}
	return a
}

// Cands are the candidate parsing actions of one (item set, terminal) cell.
type Cands struct {
	Shift   bool
	Reduces []int // production indices, ascending, without duplicates
	Accept  bool
}

func (c Cands) count() int {
	n := len(c.Reduces)
	if c.Shift {
		n++
	}
	if c.Accept {
		n++
	}
	return n
}

// candidates derives the cell from an item set by the standard rules:
// [A -> alpha . t beta, b] gives shift on t; [A -> alpha ., t] with A != S'
// gives reduce A -> alpha on t; [S' -> S ., $] gives accept on $.
func (g *Grammar) candidates(items []int, t int) Cands {
	var c Cands
	red := map[int]bool{}
	for _, it := range items {
		p, dot, la := g.decode(it)
		body := g.Prods[p].Body
		switch {
		case dot < len(body):
			if body[dot] == t {
				c.Shift = true
			}
		case p == 0:
			if la == t && t == g.End {
				c.Accept = true
			}
		default:
			if la == t {
				red[p] = true
			}
		}
	}
	for p := range red {
		c.Reduces = append(c.Reduces, p)
	}
	sort.Ints(c.Reduces)
	return c
}

// ConflictInfo summarises the conflicts of an automaton.
type ConflictInfo struct {
	States       int // number of states with at least one conflicting terminal
	Cells        int // number of conflicting (state, terminal) cells
	AcceptInvolv bool
	First        string // description of the first conflicting cell
}

func (a *Automaton) conflicts() ConflictInfo {
	var ci ConflictInfo
	g := a.G
	for si, st := range a.States {
		has := false
		for t := 0; t < g.nT; t++ {
			c := g.candidates(st.Items, t)
			if c.count() >= 2 {
				has = true
				ci.Cells++
				if c.Accept {
					ci.AcceptInvolv = true
				}
				if ci.First == "" {
					ci.First = fmt.Sprintf("ref state %d on %q: %s", si, g.Terms[t], c.describe())
				}
			}
		}
		if has {
			ci.States++
		}
	}
	return ci
}

func (c Cands) describe() string {
	var parts []string
	if c.Shift {
		parts = append(parts, "shift")
	}
	for _, r := range c.Reduces {
		parts = append(parts, fmt.Sprintf("reduce(%d)", r))
	}
	if c.Accept {
		parts = append(parts, "accept")
	}
	if len(parts) == 0 {
		return "nil"
	}
	return strings.Join(parts, "/")
}
