package main

// CHECK mode: `lrref check -gocc <gocc> [-a] file.bnf` runs the sweep checks
// on one hand-written grammar.  The file is a complete gocc grammar; only its
// syntax part is interpreted (by the small reader below), the lexical part is
// skipped except for the names of the tokens it defines.

import (
	"encoding/json"
	"flag"
	"fmt"
	"os"
	"path/filepath"
	"strconv"
	"strings"
	"unicode"
)

type bnfTok struct {
	kind byte // 'i' identifier, 's' string literal, 'c' char literal, 'a' << action >>, 'p' punctuation
	text string
	line int
}

func lexBNF(src string) ([]bnfTok, error) {
	var toks []bnfTok
	line := 1
	rs := []rune(src)
	for i := 0; i < len(rs); {
		r := rs[i]
		switch {
		case r == '\n':
			line++
			i++
		case unicode.IsSpace(r):
			i++
		case r == '/' && i+1 < len(rs) && rs[i+1] == '/':
			for i < len(rs) && rs[i] != '\n' {
				i++
			}
		case r == '/' && i+1 < len(rs) && rs[i+1] == '*':
			j := i + 2
			for j+1 < len(rs) && !(rs[j] == '*' && rs[j+1] == '/') {
				if rs[j] == '\n' {
					line++
				}
				j++
			}
			if j+1 >= len(rs) {
				return nil, fmt.Errorf("line %d: unterminated comment", line)
			}
			i = j + 2
		case r == '<' && i+1 < len(rs) && rs[i+1] == '<':
			j := i + 2
			l0 := line
			for j+1 < len(rs) && !(rs[j] == '>' && rs[j+1] == '>') {
				if rs[j] == '\n' {
					line++
				}
				j++
			}
			if j+1 >= len(rs) {
				return nil, fmt.Errorf("line %d: unterminated << action", l0)
			}
			toks = append(toks, bnfTok{'a', string(rs[i+2 : j]), l0})
			i = j + 2
		case r == '"' || r == '`' || r == '\'':
			j := i + 1
			for j < len(rs) && rs[j] != r {
				if r != '`' && rs[j] == '\\' {
					j++
				}
				if j < len(rs) && rs[j] == '\n' {
					line++
				}
				j++
			}
			if j >= len(rs) {
				return nil, fmt.Errorf("line %d: unterminated literal", line)
			}
			lit := string(rs[i : j+1])
			if r == '\'' {
				toks = append(toks, bnfTok{'c', lit, line})
			} else {
				s, err := strconv.Unquote(lit)
				if err != nil {
					return nil, fmt.Errorf("line %d: bad string literal %s", line, lit)
				}
				toks = append(toks, bnfTok{'s', s, line})
			}
			i = j + 1
		case unicode.IsLetter(r) || r == '_' || (r == '!' && i+1 < len(rs) && (unicode.IsLetter(rs[i+1]) || rs[i+1] == '_')):
			j := i + 1
			for j < len(rs) && (unicode.IsLetter(rs[j]) || unicode.IsDigit(rs[j]) || rs[j] == '_') {
				j++
			}
			toks = append(toks, bnfTok{'i', string(rs[i:j]), line})
			i = j
		default:
			toks = append(toks, bnfTok{'p', string(r), line})
			i++
		}
	}
	return toks, nil
}

func isUpperName(s string) bool {
	r := []rune(s)
	return len(r) > 0 && unicode.IsUpper(r[0])
}

// readGrammar reads a gocc grammar: lexical productions (head starts with a
// lower-case letter, `_` or `!`) are skipped, only the names of the tokens are
// kept; syntax productions `Head : alt | alt ;` (head starts with an upper-case
// letter) give the productions in file order.  An alternative is a list of
// identifiers and string literals (terminal named by the literal's content), the
// single word `empty`, or starts with `error`; `<< ... >>` is ignored.
func readGrammar(src string) (*GSpec, error) {
	toks, err := lexBNF(src)
	if err != nil {
		return nil, err
	}
	s := &GSpec{Raw: src, Tier: "manual", Lex: []string{}}
	i := 0
	for i < len(toks) {
		t := toks[i]
		if t.kind == 'a' { // file header
			i++
			continue
		}
		if t.kind != 'i' {
			return nil, fmt.Errorf("line %d: expected a production head, found %q", t.line, t.text)
		}
		head := t.text
		i++
		if i >= len(toks) || toks[i].kind != 'p' || toks[i].text != ":" {
			return nil, fmt.Errorf("line %d: expected ':' after %s", t.line, head)
		}
		i++
		if !isUpperName(head) {
			// lexical production: skip to the terminating ';'
			for i < len(toks) && !(toks[i].kind == 'p' && toks[i].text == ";") {
				i++
			}
			if i >= len(toks) {
				return nil, fmt.Errorf("line %d: lexical production %s is not terminated", t.line, head)
			}
			i++
			if unicode.IsLower([]rune(head)[0]) {
				s.Lex = append(s.Lex, head)
			}
			continue
		}
		cur := FlatProd{Head: head, Body: []string{}, Disp: []string{}}
		sawAction, isEmpty := false, false
		flush := func(line int) error {
			if isEmpty && len(cur.Body) > 0 {
				return fmt.Errorf("line %d: `empty` mixed with other symbols in an alternative of %s", line, head)
			}
			if !isEmpty && len(cur.Body) == 0 {
				return fmt.Errorf("line %d: alternative of %s without symbols", line, head)
			}
			s.Flat = append(s.Flat, cur)
			cur = FlatProd{Head: head, Body: []string{}, Disp: []string{}}
			sawAction, isEmpty = false, false
			return nil
		}
		done := false
		for !done {
			if i >= len(toks) {
				return nil, fmt.Errorf("production %s is not terminated", head)
			}
			u := toks[i]
			i++
			switch {
			case u.kind == 'p' && u.text == "|":
				if err := flush(u.line); err != nil {
					return nil, err
				}
			case u.kind == 'p' && u.text == ";":
				if err := flush(u.line); err != nil {
					return nil, err
				}
				done = true
			case u.kind == 'a':
				sawAction = true
			case sawAction:
				return nil, fmt.Errorf("line %d: symbol after << action >>", u.line)
			case u.kind == 'i' && u.text == "empty":
				isEmpty = true
			case u.kind == 'i' && u.text == "error":
				if len(cur.Body) > 0 {
					return nil, fmt.Errorf("line %d: `error` is only supported at the start of an alternative", u.line)
				}
				cur.Body = append(cur.Body, "error")
				cur.Disp = append(cur.Disp, "error")
			case u.kind == 'i':
				cur.Body = append(cur.Body, u.text)
				cur.Disp = append(cur.Disp, u.text)
			case u.kind == 's':
				cur.Body = append(cur.Body, u.text)
				cur.Disp = append(cur.Disp, strconv.Quote(u.text))
			default:
				return nil, fmt.Errorf("line %d: unexpected %q in production %s", u.line, u.text, head)
			}
		}
	}
	if len(s.Flat) == 0 {
		return nil, fmt.Errorf("no syntax productions")
	}
	heads := map[string]bool{}
	for _, p := range s.Flat {
		heads[p.Head] = true
	}
	for _, p := range s.Flat {
		for k, sym := range p.Body {
			if isUpperName(sym) && !heads[sym] && p.Disp[k] == sym {
				return nil, fmt.Errorf("nonterminal %s is used in a production of %s but not defined", sym, p.Head)
			}
		}
	}
	return s, nil
}

type CheckResult struct {
	File          string `json:"file"`
	Flags         string `json:"flags"`
	ExitStatus    int    `json:"exit_status"`
	RefStates     int    `json:"ref_states"`
	ConflictState int    `json:"conflict_states"`
	AcceptConfl   bool   `json:"accept_conflict"`
	TablesChecked bool   `json:"tables_checked"`
	LangChecked   bool   `json:"language_checked"`
	Fails         []Fail `json:"fails"`
}

func checkMain(args []string) int {
	fs := flag.NewFlagSet("check", flag.ExitOnError)
	goccPath := fs.String("gocc", "", "path to the gocc binary")
	auto := fs.Bool("a", false, "run gocc with -a")
	lang := fs.Bool("lang", false, "also compile the generated parser and compare its language (conflict free grammars)")
	keep := fs.Bool("keep", false, "keep scratch directories (debugging)")
	fs.Parse(args)
	if fs.NArg() != 1 || *goccPath == "" {
		usage()
		return 2
	}
	file := fs.Arg(0)
	src, err := os.ReadFile(file)
	if err != nil {
		fmt.Fprintln(os.Stderr, "lrref check:", err)
		return 2
	}
	abs, err := filepath.Abs(*goccPath)
	if err != nil {
		fmt.Fprintln(os.Stderr, "lrref check:", err)
		return 2
	}
	if st, err := os.Stat(abs); err != nil || st.IsDir() {
		fmt.Fprintf(os.Stderr, "lrref check: gocc binary %s not found\n", abs)
		return 2
	}
	var flags []string
	if *auto {
		flags = []string{"-a"}
	}
	res := CheckResult{File: file, Flags: strings.Join(flags, " "), Fails: []Fail{}}
	emit := func() int {
		buf, _ := json.MarshalIndent(res, "", "  ")
		os.Stdout.Write(append(buf, '\n'))
		return 0
	}
	spec, err := readGrammar(string(src))
	if err != nil {
		res.Fails = append(res.Fails, Fail{ID: caseID(string(src), flags), Grammar: string(src), Flags: res.Flags,
			Kind: "reader", Msg: "lrref cannot read the grammar: " + err.Error()})
		return emit()
	}
	tmp := os.Getenv("TMPDIR")
	if tmp == "" {
		tmp = "/tmp"
	}
	cfg := &sweepCfg{gocc: abs, tmp: tmp, forceLng: *lang, keep: *keep}
	c := &Case{ID: caseID(spec.text(), flags), Spec: spec, Text: spec.text(), Flags: flags}
	o := runCaseSafe(cfg, c)
	res.ExitStatus = o.sample.Status
	res.RefStates = o.sample.RefStates
	res.ConflictState = o.sample.Conflicts
	res.AcceptConfl = o.acceptConfl
	res.TablesChecked = o.tables
	res.Fails = append(res.Fails, o.fails...)
	if o.lang {
		res.LangChecked = true
		res.Fails = append(res.Fails, languageBatchSafe(cfg, []*Case{c})...)
	}
	return emit()
}
