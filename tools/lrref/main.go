// Command lrref is an independent LR(1) reference used as an oracle for the
// tables emitted by the parser generator gocc.  See README.md.
package main

import (
	"fmt"
	"go/token"
	"os"
)

func newFset() *token.FileSet { return token.NewFileSet() }

func usage() {
	fmt.Fprint(os.Stderr, `usage:
  lrref sweep  -gocc <gocc binary> [-scope quick|thorough] [-seed n] [-shard i/n] [-out result.json] [-only caseid] [-j workers] [-list]
  lrref tables [-repo /repo] [-out result.json]
  lrref check  -gocc <gocc binary> [-a] [-lang] <file.bnf>     (sweep checks for one hand-written grammar, JSON on stdout)
  lrref show   '<syntax part>' | <file>                       (prints the reference automaton)
`)
}

func main() {
	if len(os.Args) < 2 {
		usage()
		os.Exit(2)
	}
	switch os.Args[1] {
	case "sweep":
		os.Exit(sweepMain(os.Args[2:]))
	case "tables":
		os.Exit(tablesMain(os.Args[2:]))
	case "check":
		os.Exit(checkMain(os.Args[2:]))
	case "show":
		os.Exit(showMain(os.Args[2:]))
	default:
		usage()
		os.Exit(2)
	}
}
