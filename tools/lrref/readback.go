package main

// Reading generated Go table files back with go/parser (no compilation):
// the composite literals are evaluated structurally.

import (
	"fmt"
	"go/ast"
	"go/parser"
	"go/printer"
	"go/token"
	"path/filepath"
	"strconv"
	"strings"
)

// Act is one action table cell: Kind 0 = nil, 's' shift, 'r' reduce, 'a' accept.
type Act struct {
	Kind byte
	N    int
}

func (a Act) String() string {
	switch a.Kind {
	case 0:
		return "nil"
	case 's':
		return fmt.Sprintf("shift(%d)", a.N)
	case 'r':
		return fmt.Sprintf("reduce(%d)", a.N)
	case 'a':
		return "accept"
	}
	return "?"
}

type EProd struct {
	String     string
	Id         string
	NTType     int
	Index      int
	NumSymbols int
	Ret        string // printed return statement of ReduceFunc
}

// Emitted holds the tables gocc generated for a user grammar.
type Emitted struct {
	TypeMap    []string
	IdMap      map[string]int
	IdMapLen   int // number of key/value pairs in the literal (duplicates included)
	Actions    [][]Act
	CanRecover []bool
	Goto       [][]int
	Prods      []EProd
}

func parseFile(path string) (*token.FileSet, *ast.File, error) {
	fset := token.NewFileSet()
	f, err := parser.ParseFile(fset, path, nil, 0)
	return fset, f, err
}

// findVar returns the initialiser expression of the package level variable name.
func findVar(f *ast.File, name string) ast.Expr {
	for _, d := range f.Decls {
		gd, ok := d.(*ast.GenDecl)
		if !ok || gd.Tok != token.VAR {
			continue
		}
		for _, sp := range gd.Specs {
			vs := sp.(*ast.ValueSpec)
			for i, n := range vs.Names {
				if n.Name == name && i < len(vs.Values) {
					return vs.Values[i]
				}
			}
		}
	}
	return nil
}

func compLit(e ast.Expr) (*ast.CompositeLit, error) {
	if u, ok := e.(*ast.UnaryExpr); ok && u.Op == token.AND {
		e = u.X
	}
	if p, ok := e.(*ast.ParenExpr); ok {
		e = p.X
	}
	cl, ok := e.(*ast.CompositeLit)
	if !ok {
		return nil, fmt.Errorf("expected composite literal, found %T", e)
	}
	return cl, nil
}

func intLit(e ast.Expr) (int, error) {
	switch v := e.(type) {
	case *ast.BasicLit:
		if v.Kind == token.INT {
			n, err := strconv.ParseInt(v.Value, 0, 64)
			return int(n), err
		}
	case *ast.UnaryExpr:
		if v.Op == token.SUB {
			n, err := intLit(v.X)
			return -n, err
		}
		if v.Op == token.ADD {
			return intLit(v.X)
		}
	case *ast.ParenExpr:
		return intLit(v.X)
	case *ast.CallExpr: // conversion such as State(3) or token.Type(3)
		if len(v.Args) == 1 {
			return intLit(v.Args[0])
		}
	}
	return 0, fmt.Errorf("expected integer literal, found %s", exprString(e))
}

func strLit(e ast.Expr) (string, error) {
	if p, ok := e.(*ast.ParenExpr); ok {
		return strLit(p.X)
	}
	if c, ok := e.(*ast.CallExpr); ok && len(c.Args) == 1 { // conversion NT("x")
		return strLit(c.Args[0])
	}
	if v, ok := e.(*ast.BasicLit); ok && v.Kind == token.STRING {
		return strconv.Unquote(v.Value)
	}
	return "", fmt.Errorf("expected string literal, found %s", exprString(e))
}

func boolLit(e ast.Expr) (bool, error) {
	if id, ok := e.(*ast.Ident); ok {
		switch id.Name {
		case "true":
			return true, nil
		case "false":
			return false, nil
		}
	}
	return false, fmt.Errorf("expected true/false, found %s", exprString(e))
}

func exprString(e ast.Node) string {
	var sb strings.Builder
	printer.Fprint(&sb, token.NewFileSet(), e)
	return sb.String()
}

// actionExpr evaluates nil / shift(n) / reduce(n) / accept(x) (any letter case).
func actionExpr(e ast.Expr) (Act, error) {
	switch v := e.(type) {
	case *ast.Ident:
		if v.Name == "nil" {
			return Act{}, nil
		}
	case *ast.CallExpr:
		if id, ok := v.Fun.(*ast.Ident); ok && len(v.Args) == 1 {
			switch strings.ToLower(id.Name) {
			case "shift":
				n, err := intLit(v.Args[0])
				return Act{'s', n}, err
			case "reduce":
				n, err := intLit(v.Args[0])
				return Act{'r', n}, err
			case "accept":
				return Act{'a', 0}, nil
			}
		}
	}
	return Act{}, fmt.Errorf("unrecognised action expression %s", exprString(e))
}

// fields splits the elements of a struct literal into name -> expr; positional
// elements are named by the given field order.
func fields(cl *ast.CompositeLit, order []string) (map[string]ast.Expr, error) {
	m := map[string]ast.Expr{}
	for i, el := range cl.Elts {
		if kv, ok := el.(*ast.KeyValueExpr); ok {
			id, ok := kv.Key.(*ast.Ident)
			if !ok {
				return nil, fmt.Errorf("unexpected struct key %s", exprString(kv.Key))
			}
			m[id.Name] = kv.Value
			continue
		}
		if i >= len(order) {
			return nil, fmt.Errorf("too many positional fields")
		}
		m[order[i]] = el
	}
	return m, nil
}

// retString prints the single return statement of a func literal.
func retString(e ast.Expr) (string, error) {
	fl, ok := e.(*ast.FuncLit)
	if !ok {
		return "", fmt.Errorf("ReduceFunc is not a func literal")
	}
	if len(fl.Body.List) != 1 {
		return "", fmt.Errorf("ReduceFunc body has %d statements", len(fl.Body.List))
	}
	rs, ok := fl.Body.List[0].(*ast.ReturnStmt)
	if !ok {
		return "", fmt.Errorf("ReduceFunc body is not a return statement")
	}
	return exprString(rs), nil
}

func readEmitted(dir string) (*Emitted, error) {
	em := &Emitted{IdMap: map[string]int{}}

	// token/token.go
	_, f, err := parseFile(filepath.Join(dir, "token", "token.go"))
	if err != nil {
		return nil, err
	}
	v := findVar(f, "TokMap")
	if v == nil {
		return nil, fmt.Errorf("token.go: var TokMap not found")
	}
	cl, err := compLit(v)
	if err != nil {
		return nil, fmt.Errorf("TokMap: %v", err)
	}
	fm, err := fields(cl, []string{"typeMap", "idMap"})
	if err != nil {
		return nil, fmt.Errorf("TokMap: %v", err)
	}
	if fm["typeMap"] == nil || fm["idMap"] == nil {
		return nil, fmt.Errorf("TokMap: typeMap/idMap missing")
	}
	tcl, err := compLit(fm["typeMap"])
	if err != nil {
		return nil, fmt.Errorf("typeMap: %v", err)
	}
	for _, el := range tcl.Elts {
		s, err := strLit(el)
		if err != nil {
			return nil, fmt.Errorf("typeMap: %v", err)
		}
		em.TypeMap = append(em.TypeMap, s)
	}
	icl, err := compLit(fm["idMap"])
	if err != nil {
		return nil, fmt.Errorf("idMap: %v", err)
	}
	for _, el := range icl.Elts {
		kv, ok := el.(*ast.KeyValueExpr)
		if !ok {
			return nil, fmt.Errorf("idMap: element without key")
		}
		k, err := strLit(kv.Key)
		if err != nil {
			return nil, fmt.Errorf("idMap: %v", err)
		}
		n, err := intLit(kv.Value)
		if err != nil {
			return nil, fmt.Errorf("idMap: %v", err)
		}
		em.IdMap[k] = n
		em.IdMapLen++
	}

	// parser/actiontable.go
	_, f, err = parseFile(filepath.Join(dir, "parser", "actiontable.go"))
	if err != nil {
		return nil, err
	}
	v = findVar(f, "actionTab")
	if v == nil {
		return nil, fmt.Errorf("actiontable.go: var actionTab not found")
	}
	cl, err = compLit(v)
	if err != nil {
		return nil, fmt.Errorf("actionTab: %v", err)
	}
	for si, el := range cl.Elts {
		rcl, err := compLit(el)
		if err != nil {
			return nil, fmt.Errorf("actionTab[%d]: %v", si, err)
		}
		fm, err := fields(rcl, []string{"canRecover", "actions"})
		if err != nil {
			return nil, fmt.Errorf("actionTab[%d]: %v", si, err)
		}
		if fm["canRecover"] == nil || fm["actions"] == nil {
			return nil, fmt.Errorf("actionTab[%d]: canRecover/actions missing", si)
		}
		cr, err := boolLit(fm["canRecover"])
		if err != nil {
			return nil, fmt.Errorf("actionTab[%d]: %v", si, err)
		}
		acl, err := compLit(fm["actions"])
		if err != nil {
			return nil, fmt.Errorf("actionTab[%d].actions: %v", si, err)
		}
		var row []Act
		for ci, ael := range acl.Elts {
			if _, ok := ael.(*ast.KeyValueExpr); ok {
				return nil, fmt.Errorf("actionTab[%d].actions[%d]: keyed element not supported", si, ci)
			}
			a, err := actionExpr(ael)
			if err != nil {
				return nil, fmt.Errorf("actionTab[%d].actions[%d]: %v", si, ci, err)
			}
			row = append(row, a)
		}
		em.CanRecover = append(em.CanRecover, cr)
		em.Actions = append(em.Actions, row)
	}

	// parser/gototable.go
	_, f, err = parseFile(filepath.Join(dir, "parser", "gototable.go"))
	if err != nil {
		return nil, err
	}
	v = findVar(f, "gotoTab")
	if v == nil {
		return nil, fmt.Errorf("gototable.go: var gotoTab not found")
	}
	cl, err = compLit(v)
	if err != nil {
		return nil, fmt.Errorf("gotoTab: %v", err)
	}
	for si, el := range cl.Elts {
		rcl, err := compLit(el)
		if err != nil {
			return nil, fmt.Errorf("gotoTab[%d]: %v", si, err)
		}
		var row []int
		for ci, gel := range rcl.Elts {
			if _, ok := gel.(*ast.KeyValueExpr); ok {
				return nil, fmt.Errorf("gotoTab[%d][%d]: keyed element not supported", si, ci)
			}
			n, err := intLit(gel)
			if err != nil {
				return nil, fmt.Errorf("gotoTab[%d][%d]: %v", si, ci, err)
			}
			row = append(row, n)
		}
		em.Goto = append(em.Goto, row)
	}

	// parser/productionstable.go
	_, f, err = parseFile(filepath.Join(dir, "parser", "productionstable.go"))
	if err != nil {
		return nil, err
	}
	v = findVar(f, "productionsTable")
	if v == nil {
		return nil, fmt.Errorf("productionstable.go: var productionsTable not found")
	}
	cl, err = compLit(v)
	if err != nil {
		return nil, fmt.Errorf("productionsTable: %v", err)
	}
	for pi, el := range cl.Elts {
		pcl, err := compLit(el)
		if err != nil {
			return nil, fmt.Errorf("productionsTable[%d]: %v", pi, err)
		}
		fm, err := fields(pcl, []string{"String", "Id", "NTType", "Index", "NumSymbols", "ReduceFunc"})
		if err != nil {
			return nil, fmt.Errorf("productionsTable[%d]: %v", pi, err)
		}
		for _, k := range []string{"String", "Id", "NTType", "Index", "NumSymbols", "ReduceFunc"} {
			if fm[k] == nil {
				return nil, fmt.Errorf("productionsTable[%d]: field %s missing", pi, k)
			}
		}
		var ep EProd
		if ep.String, err = strLit(fm["String"]); err != nil {
			return nil, fmt.Errorf("productionsTable[%d].String: %v", pi, err)
		}
		if ep.Id, err = strLit(fm["Id"]); err != nil {
			return nil, fmt.Errorf("productionsTable[%d].Id: %v", pi, err)
		}
		if ep.NTType, err = intLit(fm["NTType"]); err != nil {
			return nil, fmt.Errorf("productionsTable[%d].NTType: %v", pi, err)
		}
		if ep.Index, err = intLit(fm["Index"]); err != nil {
			return nil, fmt.Errorf("productionsTable[%d].Index: %v", pi, err)
		}
		if ep.NumSymbols, err = intLit(fm["NumSymbols"]); err != nil {
			return nil, fmt.Errorf("productionsTable[%d].NumSymbols: %v", pi, err)
		}
		if ep.Ret, err = retString(fm["ReduceFunc"]); err != nil {
			return nil, fmt.Errorf("productionsTable[%d].ReduceFunc: %v", pi, err)
		}
		em.Prods = append(em.Prods, ep)
	}
	return em, nil
}
