package main

// SWEEP mode: run gocc on every grammar of a scope and compare what it emits
// with the reference canonical LR(1) automaton.

import (
	"bytes"
	"context"
	"encoding/json"
	"flag"
	"fmt"
	"os"
	"os/exec"
	"path/filepath"
	"regexp"
	"runtime"
	"sort"
	"strconv"
	"strings"
	"sync"
	"sync/atomic"
	"time"
)

type Fail struct {
	ID      string `json:"id"`
	Grammar string `json:"grammar"`
	Flags   string `json:"flags"`
	Kind    string `json:"kind"`
	Msg     string `json:"msg"`
}

type Sample struct {
	ID        string `json:"id"`
	Grammar   string `json:"grammar"`
	Flags     string `json:"flags"`
	Tier      string `json:"tier"`
	RefStates int    `json:"ref_states"`
	Conflicts int    `json:"conflict_states"`
	Status    int    `json:"exit_status"`
}

type SweepResult struct {
	Scope         string         `json:"scope"`
	Seed          uint64         `json:"seed"`
	Shard         string         `json:"shard"`
	Cases         int            `json:"cases"`
	Grammars      int            `json:"grammars"`
	ScopeGrammars int            `json:"scope_grammars"`
	ConflictFree  int            `json:"conflict_free"`
	Conflicting   int            `json:"conflicting"`
	AcceptConfl   int            `json:"accept_conflicts"`
	Timeouts      int            `json:"timeouts"`
	TablesChecked int            `json:"tables_checked"`
	LangChecked   int            `json:"language_checked"`
	Tiers         map[string]int `json:"tiers"`
	ElapsedSec    float64        `json:"elapsed_sec"`
	Fails         []Fail         `json:"fails"`
	Samples       []Sample       `json:"samples"`
}

type caseOutcome struct {
	fails       []Fail
	conflicting bool
	acceptConfl bool
	timeout     bool
	tables      bool
	lang        bool
	sample      Sample
}

type sweepCfg struct {
	gocc     string
	tmp      string
	thorough bool
	seed     uint64
	forceLng bool
	keep     bool
}

var conflictLineRE = regexp.MustCompile(`^(\d+) LR-1 conflicts$`)

func sweepMain(args []string) int {
	fs := flag.NewFlagSet("sweep", flag.ExitOnError)
	goccPath := fs.String("gocc", "", "path to the gocc binary")
	scope := fs.String("scope", "quick", "quick | thorough")
	seed := fs.Uint64("seed", 0, "order permutation seed (0 = canonical order)")
	shard := fs.String("shard", "0/1", "i/n: run the cases whose position is congruent i modulo n")
	out := fs.String("out", "", "result file (default stdout)")
	only := fs.String("only", "", "run only the case with this id")
	jobs := fs.Int("j", runtime.NumCPU(), "parallel workers")
	list := fs.Bool("list", false, "only list the cases (id, flags, grammar) and exit")
	keep := fs.Bool("keep", false, "keep scratch directories (debugging)")
	tier := fs.String("tier", "", "run only the cases whose tier name starts with this prefix")
	fs.Parse(args)

	e, ok := scopeSpecs(*scope)
	if !ok {
		fmt.Fprintf(os.Stderr, "lrref: unknown scope %q\n", *scope)
		return 2
	}
	var si, sn int
	if n, err := fmt.Sscanf(*shard, "%d/%d", &si, &sn); n != 2 || err != nil || sn < 1 || si < 0 || si >= sn {
		fmt.Fprintf(os.Stderr, "lrref: bad -shard %q\n", *shard)
		return 2
	}
	all := buildCases(e.specs, *seed)
	var cases []*Case
	for i, c := range all {
		if *tier != "" && !strings.HasPrefix(c.Spec.Tier, *tier) {
			continue
		}
		if *only != "" {
			if c.ID == *only {
				cases = append(cases, c)
			}
			continue
		}
		if i%sn == si {
			cases = append(cases, c)
		}
	}
	if *list {
		for _, c := range cases {
			fmt.Printf("%s\t%s\t%s\t%s\n", c.ID, c.Spec.Tier, strings.Join(c.Flags, " "),
				strings.ReplaceAll(strings.TrimSpace(c.Spec.syntaxText()), "\n", " "))
		}
		return 0
	}
	if *only != "" && len(cases) == 0 {
		fmt.Fprintf(os.Stderr, "lrref: no case with id %s in scope %s\n", *only, *scope)
		return 2
	}
	if *goccPath == "" {
		fmt.Fprintln(os.Stderr, "lrref: -gocc is required")
		return 2
	}
	abs, err := filepath.Abs(*goccPath)
	if err != nil {
		fmt.Fprintln(os.Stderr, "lrref:", err)
		return 2
	}
	if st, err := os.Stat(abs); err != nil || st.IsDir() {
		fmt.Fprintf(os.Stderr, "lrref: gocc binary %s not found\n", abs)
		return 2
	}
	tmp := os.Getenv("TMPDIR")
	if tmp == "" {
		tmp = "/tmp"
	}
	cfg := &sweepCfg{gocc: abs, tmp: tmp, thorough: *scope == "thorough", seed: *seed,
		forceLng: *only != "" && *scope == "thorough", keep: *keep}

	start := time.Now()
	outcomes := make([]caseOutcome, len(cases))
	var done int64
	var wg sync.WaitGroup
	ch := make(chan int)
	if *jobs < 1 {
		*jobs = 1
	}
	for w := 0; w < *jobs; w++ {
		wg.Add(1)
		go func() {
			defer wg.Done()
			for i := range ch {
				outcomes[i] = runCaseSafe(cfg, cases[i])
				if n := atomic.AddInt64(&done, 1); n%5000 == 0 {
					fmt.Fprintf(os.Stderr, "lrref sweep: %d/%d cases done after %.0fs\n", n, len(cases), time.Since(start).Seconds())
				}
			}
		}()
	}
	for i := range cases {
		ch <- i
	}
	close(ch)
	wg.Wait()

	// second phase: language check of the selected cases, in batches
	var langIdx []int
	for i, o := range outcomes {
		if o.lang {
			langIdx = append(langIdx, i)
		}
	}
	if len(langIdx) > 0 {
		fmt.Fprintf(os.Stderr, "lrref sweep: language check of %d cases in batches of %d (after %.0fs)\n", len(langIdx), langBatchSize, time.Since(start).Seconds())
		var batches [][]int
		for lo := 0; lo < len(langIdx); lo += langBatchSize {
			hi := lo + langBatchSize
			if hi > len(langIdx) {
				hi = len(langIdx)
			}
			batches = append(batches, langIdx[lo:hi])
		}
		par := *jobs / 4 // go build is parallel in itself
		if par < 1 {
			par = 1
		}
		var mu sync.Mutex
		var wg2 sync.WaitGroup
		bch := make(chan []int)
		for w := 0; w < par; w++ {
			wg2.Add(1)
			go func() {
				defer wg2.Done()
				for b := range bch {
					cs := make([]*Case, len(b))
					for k, i := range b {
						cs[k] = cases[i]
					}
					fails := languageBatchSafe(cfg, cs)
					mu.Lock()
					for _, f := range fails {
						for _, i := range b {
							if cases[i].ID == f.ID {
								outcomes[i].fails = append(outcomes[i].fails, f)
								break
							}
						}
					}
					mu.Unlock()
				}
			}()
		}
		for _, b := range batches {
			bch <- b
		}
		close(bch)
		wg2.Wait()
	}

	res := SweepResult{Scope: *scope, Seed: *seed, Shard: *shard, Cases: len(cases),
		ScopeGrammars: len(e.specs), Tiers: e.tiers, Fails: []Fail{}, Samples: []Sample{}}
	gset := map[string]bool{}
	for i, o := range outcomes {
		gset[cases[i].Text] = true
		if o.conflicting {
			res.Conflicting++
		} else {
			res.ConflictFree++
		}
		if o.acceptConfl {
			res.AcceptConfl++
		}
		if o.timeout {
			res.Timeouts++
		}
		if o.tables {
			res.TablesChecked++
		}
		if o.lang {
			res.LangChecked++
		}
		res.Fails = append(res.Fails, o.fails...)
	}
	res.Grammars = len(gset)
	// a few sample case descriptions, evenly spread over the run
	if n := len(cases); n > 0 {
		want := 8
		if n < want {
			want = n
		}
		for k := 0; k < want; k++ {
			res.Samples = append(res.Samples, outcomes[k*n/want].sample)
		}
	}
	sort.SliceStable(res.Fails, func(i, j int) bool { return res.Fails[i].ID < res.Fails[j].ID })
	res.ElapsedSec = time.Since(start).Seconds()

	buf, _ := json.MarshalIndent(res, "", "  ")
	buf = append(buf, '\n')
	if *out == "" || *out == "-" {
		os.Stdout.Write(buf)
	} else if err := os.WriteFile(*out, buf, 0o644); err != nil {
		fmt.Fprintln(os.Stderr, "lrref:", err)
		return 2
	}
	fmt.Fprintf(os.Stderr, "lrref sweep: scope=%s cases=%d grammars=%d conflict_free=%d conflicting=%d (accept %d) timeouts=%d tables_checked=%d language_checked=%d fails=%d elapsed=%.1fs\n",
		*scope, res.Cases, res.Grammars, res.ConflictFree, res.Conflicting, res.AcceptConfl, res.Timeouts,
		res.TablesChecked, res.LangChecked, len(res.Fails), res.ElapsedSec)
	if len(res.Fails) > 0 {
		return 1
	}
	return 0
}

func languageBatchSafe(cfg *sweepCfg, cs []*Case) (fails []Fail) {
	defer func() {
		if r := recover(); r != nil {
			fails = append(fails, Fail{ID: cs[0].ID, Grammar: cs[0].Text, Flags: strings.Join(cs[0].Flags, " "),
				Kind: "internal", Msg: fmt.Sprintf("lrref panic in language batch: %v", r)})
		}
	}()
	return languageBatch(cfg, cs)
}

func runCaseSafe(cfg *sweepCfg, c *Case) (o caseOutcome) {
	defer func() {
		if r := recover(); r != nil {
			o.fails = append(o.fails, Fail{ID: c.ID, Grammar: c.Text, Flags: strings.Join(c.Flags, " "),
				Kind: "internal", Msg: fmt.Sprintf("lrref panic: %v", r)})
		}
	}()
	return runCase(cfg, c)
}

func runCase(cfg *sweepCfg, c *Case) (o caseOutcome) {
	flags := strings.Join(c.Flags, " ")
	fail := func(kind, format string, a ...interface{}) {
		o.fails = append(o.fails, Fail{ID: c.ID, Grammar: c.Text, Flags: flags, Kind: kind, Msg: fmt.Sprintf(format, a...)})
	}
	autoResolve := false
	for _, f := range c.Flags {
		if f == "-a" {
			autoResolve = true
		}
	}

	// reference automaton
	g := c.Spec.grammar()
	ref := canonicalLR1(g)
	ci := ref.conflicts()
	o.conflicting = ci.Cells > 0
	o.acceptConfl = ci.AcceptInvolv
	o.sample = Sample{ID: c.ID, Grammar: strings.TrimSpace(c.Spec.syntaxText()), Flags: flags, Tier: c.Spec.Tier,
		RefStates: len(ref.States), Conflicts: ci.States}

	// 1. run gocc in a scratch directory
	dir, err := os.MkdirTemp(cfg.tmp, "lrref-")
	if err != nil {
		fail("internal", "cannot create scratch dir: %v", err)
		return
	}
	if !cfg.keep {
		defer os.RemoveAll(dir)
	}
	if err := os.WriteFile(filepath.Join(dir, "go.mod"), []byte("module x\n\ngo 1.24\n"), 0o644); err != nil {
		fail("internal", "%v", err)
		return
	}
	if err := os.WriteFile(filepath.Join(dir, "g.bnf"), []byte(c.Text), 0o644); err != nil {
		fail("internal", "%v", err)
		return
	}
	status, stdoutS, stderrS, timedOut, runErr := runGocc(cfg, dir, c.Flags)
	if timedOut {
		o.timeout = true
		fail("timeout", "gocc did not finish within 10s")
		return
	}
	if runErr != nil {
		fail("internal", "cannot run gocc: %v", runErr)
		return
	}
	o.sample.Status = status
	errTail := func() string {
		s := strings.TrimSpace(stderrS)
		var keep []string
		for _, l := range strings.Split(s, "\n") {
			if strings.HasPrefix(l, "warning: symbol") {
				continue
			}
			keep = append(keep, l)
			if len(keep) == 3 {
				break
			}
		}
		return strings.Join(keep, " | ")
	}

	// 4a. exit status and conflict line
	var outLines []string
	for _, l := range strings.Split(stdoutS, "\n") {
		if l = strings.TrimSpace(l); l != "" {
			outLines = append(outLines, l)
		}
	}
	reported := -1
	var otherLines []string
	for _, l := range outLines {
		if m := conflictLineRE.FindStringSubmatch(l); m != nil && reported < 0 {
			reported, _ = strconv.Atoi(m[1])
		} else {
			otherLines = append(otherLines, l)
		}
	}
	switch {
	case ci.AcceptInvolv:
		// accept/reduce conflict: gocc panics in both modes
		if status == 0 || status == 1 {
			fail("status", "reference has an accept conflict (%s): expected a panic (status 2), got status %d, stdout %q",
				ci.First, status, strings.Join(outLines, "\\n"))
		}
		return
	case ci.Cells > 0:
		want := 1
		if autoResolve {
			want = 0
		}
		if status != want {
			fail("status", "reference has %d conflicting state(s) (%s): expected exit status %d, got %d; stdout %q stderr %q",
				ci.States, ci.First, want, status, strings.Join(outLines, "\\n"), errTail())
		}
		if reported != ci.States {
			fail("conflict-count", "reference has %d state(s) with conflicts (%d cells; %s): expected line \"%d LR-1 conflicts\", stdout %q",
				ci.States, ci.Cells, ci.First, ci.States, strings.Join(outLines, "\\n"))
		}
	default:
		if status != 0 {
			fail("status", "reference automaton (%d states) is conflict free: expected exit status 0, got %d; stdout %q stderr %q",
				len(ref.States), status, strings.Join(outLines, "\\n"), errTail())
		}
		if reported >= 0 {
			fail("conflict-count", "reference automaton is conflict free but gocc printed \"%d LR-1 conflicts\"", reported)
		}
	}
	if len(otherLines) > 0 {
		fail("stdout", "unexpected output on stdout: %q", strings.Join(otherLines, "\\n"))
	}
	if status != 0 {
		return // no complete output to read back (token/ is not written)
	}

	// 2. read the tables back
	em, err := readEmitted(dir)
	if err != nil {
		fail("readback", "cannot read emitted tables: %v", err)
		return
	}
	o.tables = true

	// 4b..e
	before := len(o.fails)
	for _, m := range compareTables(g, ref, em, c.Spec.lexTokens()) {
		fail(m.kind, "%s", m.msg)
	}
	tablesOK := len(o.fails) == before

	// 5. language check (thorough, sampled): done in batches in a second phase
	if ci.Cells == 0 && tablesOK && (cfg.forceLng || (cfg.thorough && langSampled(c.ID, cfg.seed))) {
		o.lang = true
	}
	return
}

// runGocc runs gocc on g.bnf in dir with a 10 s time limit.
func runGocc(cfg *sweepCfg, dir string, flags []string) (status int, stdout, stderr string, timedOut bool, err error) {
	ctx, cancel := context.WithTimeout(context.Background(), 10*time.Second)
	defer cancel()
	cmd := exec.CommandContext(ctx, cfg.gocc, append(append([]string{}, flags...), "g.bnf")...)
	cmd.Dir = dir
	// many generator processes run side by side: one scheduler thread each is
	// fastest (LRREF_GOCC_GOMAXPROCS overrides, 0 = inherit)
	switch v := os.Getenv("LRREF_GOCC_GOMAXPROCS"); v {
	case "":
		cmd.Env = append(os.Environ(), "GOMAXPROCS=1")
	case "0":
	default:
		cmd.Env = append(os.Environ(), "GOMAXPROCS="+v)
	}
	var so, se bytes.Buffer
	cmd.Stdout, cmd.Stderr = &so, &se
	cmd.WaitDelay = 2 * time.Second
	runErr := cmd.Run()
	stdout, stderr = so.String(), se.String()
	if ctx.Err() == context.DeadlineExceeded {
		return -1, stdout, stderr, true, nil
	}
	if runErr != nil {
		if ee, ok := runErr.(*exec.ExitError); ok {
			return ee.ExitCode(), stdout, stderr, false, nil
		}
		return -1, stdout, stderr, false, runErr
	}
	return 0, stdout, stderr, false, nil
}

type mismatch struct{ kind, msg string }

// collector keeps the first message of each kind and counts the rest.
type collector struct {
	order []string
	first map[string]string
	count map[string]int
}

func newCollector() *collector {
	return &collector{first: map[string]string{}, count: map[string]int{}}
}

func (c *collector) add(kind, format string, a ...interface{}) {
	if c.count[kind] == 0 {
		c.order = append(c.order, kind)
		c.first[kind] = fmt.Sprintf(format, a...)
	}
	c.count[kind]++
}

func (c *collector) result() []mismatch {
	var r []mismatch
	for _, k := range c.order {
		m := c.first[k]
		if c.count[k] > 1 {
			m += fmt.Sprintf(" (+%d more of this kind)", c.count[k]-1)
		}
		r = append(r, mismatch{k, m})
	}
	return r
}

// compareTables checks token map, productions table, isomorphism, action,
// goto and canRecover entries of the emitted tables against the reference.
func compareTables(g *Grammar, ref *Automaton, em *Emitted, lexTokens []string) []mismatch {
	col := newCollector()

	// token.TokMap
	tm := em.TypeMap
	if len(tm) < 2 || tm[0] != "INVALID" || tm[1] != "␚" {
		col.add("tokmap", "typeMap must start with INVALID, ␚: %q", tm)
	}
	pos := map[string]int{}
	for i, n := range tm {
		if _, dup := pos[n]; dup {
			col.add("tokmap", "typeMap has duplicate entry %q", n)
		}
		pos[n] = i
		if v, ok := em.IdMap[n]; !ok || v != i {
			col.add("tokmap", "idMap[%q] = %d (present %v), expected %d", n, v, ok, i)
		}
	}
	if len(em.IdMap) != len(tm) || em.IdMapLen != len(tm) {
		col.add("tokmap", "len(idMap) = %d (%d literal entries), len(typeMap) = %d", len(em.IdMap), em.IdMapLen, len(tm))
	}
	// every terminal of the grammar needs a column
	termCol := make([]int, g.nT)
	colTerm := make([]int, len(tm))
	for i := range colTerm {
		colTerm[i] = -1
	}
	for t, n := range g.Terms {
		p, ok := pos[n]
		if !ok {
			col.add("tokmap", "terminal %q of the grammar is missing from typeMap %q", n, tm)
			termCol[t] = -1
			continue
		}
		termCol[t] = p
		colTerm[p] = t
	}
	for _, n := range lexTokens {
		if _, ok := pos[n]; !ok {
			col.add("tokmap", "token %q of the lexical part is missing from typeMap %q", n, tm)
		}
	}

	// productionsTable
	if len(em.Prods) != len(g.Prods) {
		col.add("production", "productionsTable has %d entries, grammar has %d productions (with S')", len(em.Prods), len(g.Prods))
	}
	ntType := map[int]int{} // reference nonterminal -> NTType
	typeNT := map[int]int{}
	for i := 0; i < len(em.Prods) && i < len(g.Prods); i++ {
		ep, p := em.Prods[i], g.Prods[i]
		if ep.Id != g.NTs[p.Head] {
			col.add("production", "productionsTable[%d].Id = %q, expected %q (%s)", i, ep.Id, g.NTs[p.Head], g.prodString(i))
		}
		if ep.NumSymbols != len(p.Body) {
			col.add("production", "productionsTable[%d].NumSymbols = %d, expected %d (%s)", i, ep.NumSymbols, len(p.Body), g.prodString(i))
		}
		if ep.Index != i {
			col.add("production", "productionsTable[%d].Index = %d", i, ep.Index)
		}
		if !strings.HasPrefix(ep.String, g.prodString(i)+"\t") {
			col.add("production", "productionsTable[%d].String = %q, expected prefix %q", i, ep.String, g.prodString(i)+"\t")
		}
		if t, ok := ntType[p.Head]; ok && t != ep.NTType {
			col.add("production", "productionsTable[%d].NTType = %d but head %s had NTType %d before", i, ep.NTType, g.NTs[p.Head], t)
		} else if !ok {
			if o, used := typeNT[ep.NTType]; used && o != p.Head {
				col.add("production", "productionsTable[%d].NTType = %d is already used for head %s", i, ep.NTType, g.NTs[o])
			}
			ntType[p.Head] = ep.NTType
			typeNT[ep.NTType] = p.Head
		}
	}
	if len(col.order) > 0 {
		// numbering of columns is unreliable: stop here
		return col.result()
	}

	// shape
	nStates := len(em.Actions)
	if len(em.Goto) != nStates || len(em.CanRecover) != nStates {
		col.add("shape", "actionTab has %d rows, gotoTab %d rows", nStates, len(em.Goto))
		return col.result()
	}
	nNT := len(g.NTs)
	for s := 0; s < nStates; s++ {
		if len(em.Actions[s]) != len(tm) {
			col.add("shape", "actionTab[%d] has %d cells, typeMap has %d entries", s, len(em.Actions[s]), len(tm))
		}
		if len(em.Goto[s]) != nNT {
			col.add("shape", "gotoTab[%d] has %d cells, expected %d nonterminals (with S')", s, len(em.Goto[s]), nNT)
		}
		for c, a := range em.Actions[s] {
			if a.Kind == 's' && (a.N < 0 || a.N >= nStates) {
				col.add("shape", "actionTab[%d][%s] = %s: target out of range", s, tm[c], a)
			}
			if a.Kind == 'r' && (a.N < 0 || a.N >= len(g.Prods)) {
				col.add("shape", "actionTab[%d][%s] = %s: production out of range", s, tm[c], a)
			}
		}
		for c, t := range em.Goto[s] {
			if t < -1 || t >= nStates {
				col.add("shape", "gotoTab[%d][%d] = %d: target out of range", s, c, t)
			}
		}
	}
	for n := 0; n < nNT; n++ {
		if t, ok := ntType[n]; !ok || t < 0 || t >= nNT {
			col.add("shape", "nonterminal %s has NTType %d (known %v), gotoTab has %d columns", g.NTs[n], t, ok, nNT)
		}
	}
	if len(col.order) > 0 {
		return col.result()
	}
	if nStates != len(ref.States) {
		col.add("states", "emitted automaton has %d states, canonical LR(1) automaton has %d", nStates, len(ref.States))
	}

	// isomorphism: BFS from (0, 0) over shift and goto entries
	e2r := make([]int, nStates)
	for i := range e2r {
		e2r[i] = -1
	}
	r2e := make([]int, len(ref.States))
	for i := range r2e {
		r2e[i] = -1
	}
	e2r[0], r2e[0] = 0, 0
	queue := []int{0}
	pair := func(e, r int, via string) {
		switch {
		case e2r[e] == -1 && r2e[r] == -1:
			e2r[e], r2e[r] = r, e
			queue = append(queue, e)
		case e2r[e] != r || r2e[r] != e:
			col.add("isomorphism", "%s: emitted state %d would map to reference state %d, but emitted %d <-> reference %d and reference %d <-> emitted %d",
				via, e, r, e, e2r[e], r, r2e[r])
		}
	}
	for len(queue) > 0 {
		e := queue[0]
		queue = queue[1:]
		r := e2r[e]
		for t := 0; t < g.nT; t++ {
			if termCol[t] < 0 {
				continue
			}
			a := em.Actions[e][termCol[t]]
			if rt, ok := ref.States[r].Trans[t]; ok && a.Kind == 's' {
				pair(a.N, rt, fmt.Sprintf("state %d shift on %q", e, g.Terms[t]))
			}
		}
		for n := 0; n < nNT; n++ {
			et := em.Goto[e][ntType[n]]
			if rt, ok := ref.States[r].Trans[g.nT+n]; ok && et >= 0 {
				pair(et, rt, fmt.Sprintf("state %d goto on %s", e, g.NTs[n]))
			}
		}
	}
	for e := 0; e < nStates; e++ {
		if e2r[e] == -1 {
			col.add("isomorphism", "emitted state %d has no counterpart in the reference automaton (unreachable or reached only through wrong entries)", e)
		}
	}
	for r := range ref.States {
		if r2e[r] == -1 {
			col.add("isomorphism", "reference state %d has no emitted counterpart; items: %s", r, itemsBrief(g, ref.States[r].Items))
		}
	}

	// cells
	stateName := func(r int) string {
		if r2e[r] >= 0 {
			return strconv.Itoa(r2e[r])
		}
		return fmt.Sprintf("<ref %d>", r)
	}
	for e := 0; e < nStates; e++ {
		r := e2r[e]
		if r < 0 {
			continue
		}
		st := ref.States[r]
		for c := 0; c < len(tm); c++ {
			found := em.Actions[e][c]
			exp, expStr := Act{}, "nil"
			cand := Cands{}
			if t := colTerm[c]; t >= 0 {
				cand = g.candidates(st.Items, t)
				switch {
				case cand.Shift: // shift wins over reduce
					tgt := st.Trans[t]
					exp = Act{'s', r2e[tgt]}
					expStr = "shift(" + stateName(tgt) + ")"
				case cand.Accept:
					exp, expStr = Act{'a', 0}, "accept"
				case len(cand.Reduces) > 0: // smallest production index wins
					exp = Act{'r', cand.Reduces[0]}
					expStr = exp.String()
				}
			}
			if found.Kind != exp.Kind || (found.Kind != 'a' && found.N != exp.N) {
				col.add("action", "state %d (ref %d) on %q: expected %s, found %s; candidates %s; items: %s",
					e, r, tm[c], expStr, found, cand.describe(), itemsBrief(g, st.Items))
			}
		}
		for n := 0; n < nNT; n++ {
			found := em.Goto[e][ntType[n]]
			exp, expStr := -1, "-1"
			if tgt, ok := st.Trans[g.nT+n]; ok {
				exp, expStr = r2e[tgt], stateName(tgt)
				if exp < 0 {
					exp = -2
				}
			}
			if found != exp {
				col.add("goto", "state %d (ref %d) on %s: expected %s, found %d", e, r, g.NTs[n], expStr, found)
			}
		}
		// canRecover: true iff the state can shift the terminal `error`, i.e.
		// iff some item has the dot immediately before `error` (a shift
		// always survives -a resolution, so this is the same as "the
		// reference action cell for (state, error) is a shift").
		wantCR := false
		for _, it := range st.Items {
			p, dot, _ := g.decode(it)
			b := g.Prods[p].Body
			if dot < len(b) && g.isTerm(b[dot]) && g.Terms[b[dot]] == "error" {
				wantCR = true
			}
		}
		if em.CanRecover[e] != wantCR {
			col.add("canrecover", "state %d (ref %d): canRecover = %v, expected %v; items: %s", e, r, em.CanRecover[e], wantCR, itemsBrief(g, st.Items))
		}
	}
	return col.result()
}

func itemsBrief(g *Grammar, items []int) string {
	var parts []string
	for i, it := range items {
		if i == 8 {
			parts = append(parts, fmt.Sprintf("... (%d items)", len(items)))
			break
		}
		parts = append(parts, g.itemString(it))
	}
	return strings.Join(parts, " ")
}
