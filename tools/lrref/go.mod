module lrref

go 1.24
