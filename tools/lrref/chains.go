package main

// The "chains" tier: hand-designed families of grammars with 4 and 5
// nonterminals that exercise FIRST-set propagation through chains of
// nonterminals (unit chains, nullability that is only reachable through other
// nonterminals, nullable-nullable-terminal sequences, left-recursive lists).
// Every grammar is generated twice: with its rules written top-down and with
// the rules after the start rule in reverse (bottom-up) order, because the
// order of the productions decides in which pass a naive fixed point sees what.

import (
	"strings"
)

// chainFixed are the fixed members of the tier.
var chainFixed = [][]string{
	// G1: unit chain below a nonterminal that follows another nonterminal
	{"Top : P S", "P : p", "S : A x", "A : B | a", "B : C | b", "C : c"},
	// G2: nullability only through another nonterminal, left-recursive list
	{"Decl : Type Mods x", "Type : t", "Mods : Quals", "Quals : empty | Quals q"},
	// G3: list, then nullable, then required terminal
	{"S : x A Opt c", "A : a | A a", "Opt : o | empty"},
	// G4: nullable nonterminal, nullable nonterminal, required terminal
	{"S : Y A d", "Y : y | y d", "A : B C", "B : empty | b", "C : empty | c"},
}

func chainGrammars() [][]string {
	var out [][]string
	add := func(rules ...string) {
		out = append(out, append([]string{}, rules...))
	}
	cat := func(parts ...[]string) []string {
		var r []string
		for _, p := range parts {
			r = append(r, p...)
		}
		return r
	}

	// F1: unit chains headed by A in different contexts
	chains3 := [][]string{
		{"A : B | a", "B : C | b", "C : c"},
		{"A : B | a", "B : C | b", "C : c | empty"},
		{"A : B", "B : C", "C : empty | C c"},
		{"A : B", "B : C", "C : empty | c"},
		{"A : B a", "B : C | b", "C : empty | c"},
		{"A : B C", "B : empty | b", "C : empty | c"},
	}
	chains2 := [][]string{
		{"A : B | a", "B : b"},
		{"A : B", "B : empty | b"},
		{"A : B", "B : empty | B b"},
		{"A : a | B", "B : b | empty"},
	}
	ctxAll := map[string][]string{
		"ntBefore":   {"Top : P A x", "P : p"},          // directly after a nonterminal
		"ntBeforeIn": {"Top : P S", "P : p", "S : A x"}, // after a nonterminal, one level down (G1)
		"tBefore":    {"Top : p A x"},                   // after a terminal
		"start":      {"Top : A x"},                     // first symbol
		"end":        {"Top : P A", "P : p"},            // last symbol: lookahead is end of input
	}
	for _, ch := range chains3 {
		for _, c := range []string{"ntBefore", "tBefore", "start", "end"} {
			add(cat(ctxAll[c], ch)...)
		}
	}
	for _, ch := range chains2 {
		for _, c := range []string{"ntBefore", "ntBeforeIn", "end"} {
			add(cat(ctxAll[c], ch)...)
		}
	}

	// F2: Decl : [Type|t] Mods [x] with Mods nullable only through Quals
	for _, pre := range []string{"Type", "t", ""} {
		for _, mods := range []string{"Mods : Quals", "Mods : Quals | m"} {
			for _, quals := range [][]string{
				{"Quals : empty | Quals q"},
				{"Quals : empty | q Quals"},
				{"Quals : More", "More : empty | More q"},
			} {
				for _, post := range []string{"x", ""} {
					top := strings.Join(strings.Fields("Decl : "+pre+" Mods "+post), " ")
					rules := []string{top}
					if pre == "Type" {
						rules = append(rules, "Type : t")
					}
					rules = append(rules, mods)
					rules = append(rules, quals...)
					add(rules...)
				}
			}
		}
	}

	// F3: S : [x|P] A Opt [c]: (list or nullable) nullable required-terminal
	for _, pre := range []string{"x", "P", ""} {
		for _, a := range [][]string{
			{"A : a | A a"},
			{"A : empty | A a"},
			{"A : B", "B : empty | b"},
		} {
			for _, opt := range [][]string{
				{"Opt : o | empty"},
				{"Opt : Q", "Q : empty | Q q"},
			} {
				for _, post := range []string{"c", ""} {
					top := strings.Join(strings.Fields("S : "+pre+" A Opt "+post), " ")
					rules := []string{top}
					if pre == "P" {
						rules = append(rules, "P : p")
					}
					rules = append(rules, a...)
					rules = append(rules, opt...)
					add(rules...)
				}
			}
		}
	}

	// F4: S : Y A [d]: two nullable nonterminals in a row below A
	for _, y := range []string{"Y : y | y d", "Y : y"} {
		for _, a := range []string{"A : B C", "A : B C | a", "A : C B"} {
			for _, post := range []string{"d", ""} {
				top := strings.Join(strings.Fields("S : Y A "+post), " ")
				add(top, y, a, "B : empty | b", "C : empty | c")
			}
		}
	}

	// F5: left-recursive lists whose elements are reached through a chain
	for _, top := range [][]string{{"Top : L x"}, {"Top : p L"}, {"Top : P L x", "P : p"}} {
		for _, l := range []string{"L : E | L E", "L : E | L s E", "L : empty | L E"} {
			for _, e := range [][]string{
				{"E : A", "A : B | a", "B : b"},
				{"E : A | e", "A : a"},
			} {
				add(cat(top, []string{l}, e)...)
			}
		}
	}
	return out
}

// addChains registers the tier: the fixed members, then every generated
// grammar with 4 or 5 nonterminals, each top-down and bottom-up.
func (e *enumerator) addChains(tier string) {
	emit := func(rules []string) {
		for _, order := range []string{"td", "bu"} {
			rs := append([]string{}, rules...)
			if order == "bu" {
				for i, j := 1, len(rs)-1; i < j; i, j = i+1, j-1 {
					rs[i], rs[j] = rs[j], rs[i]
				}
			}
			s, err := parseSyntaxText(strings.Join(rs, " ;\n") + " ;\n")
			if err != nil {
				panic("chains tier: " + err.Error())
			}
			s.Tier = tier
			e.addSpec(s)
		}
	}
	for _, g := range chainFixed {
		emit(g)
	}
	for _, g := range chainGrammars() {
		if n := len(g); n == 4 || n == 5 { // one rule per nonterminal
			emit(g)
		}
	}
}
