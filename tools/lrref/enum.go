package main

// Deterministic enumeration of the grammar scopes.

import (
	"crypto/sha256"
	"encoding/hex"
	"sort"
	"strings"
)

// lexPart is the fixed lexical part: one single-character token per terminal
// name plus ignored white space.
const lexPart = "a : 'a' ; b : 'b' ; c : 'c' ; !ws : ' ' ;\n\n"

var ntNames = []string{"S", "A", "B"}
var termNames = []string{"a", "b", "c"}

// GSpec is the syntax part of a grammar.  Alts[i] are the alternatives of
// nonterminal nt(i) (ntNames[i] unless Names is set); an alternative is a list
// of symbol names, the empty list stands for `empty`; an alternative may start
// with "error".  Lex lists the token names of the lexical part (termNames
// unless set; every token is the single character that is its name).
// Hand-written grammars (check mode) carry their productions in file order in
// Flat and their complete text in Raw instead.
type GSpec struct {
	Alts  [][][]string
	Names []string
	Lex   []string
	Flat  []FlatProd
	Raw   string
	Tier  string
}

// FlatProd is one production; Disp gives the symbols as gocc prints them in
// productionsTable.String (string literals keep their quotes).
type FlatProd struct {
	Head string
	Body []string
	Disp []string
}

func (s *GSpec) nt(i int) string {
	if s.Names != nil {
		return s.Names[i]
	}
	return ntNames[i]
}

func (s *GSpec) lexTokens() []string {
	if s.Lex != nil {
		return s.Lex
	}
	return termNames
}

func (s *GSpec) flat() []FlatProd {
	if s.Flat != nil {
		return s.Flat
	}
	var fl []FlatProd
	for i, alts := range s.Alts {
		for _, alt := range alts {
			fl = append(fl, FlatProd{Head: s.nt(i), Body: alt, Disp: alt})
		}
	}
	return fl
}

func (s *GSpec) syntaxText() string {
	var sb strings.Builder
	if s.Flat != nil {
		for _, p := range s.Flat {
			b := strings.Join(p.Disp, " ")
			if len(p.Disp) == 0 {
				b = "empty"
			}
			sb.WriteString(p.Head + " : " + b + " ;\n")
		}
		return sb.String()
	}
	for i, alts := range s.Alts {
		sb.WriteString(s.nt(i))
		sb.WriteString(" : ")
		for j, alt := range alts {
			if j > 0 {
				sb.WriteString(" | ")
			}
			if len(alt) == 0 {
				sb.WriteString("empty")
			} else {
				sb.WriteString(strings.Join(alt, " "))
			}
		}
		sb.WriteString(" ;\n")
	}
	return sb.String()
}

func (s *GSpec) lexText() string {
	if s.Lex == nil {
		return lexPart
	}
	var sb strings.Builder
	for _, t := range s.Lex {
		sb.WriteString(t + " : '" + t + "' ; ")
	}
	sb.WriteString("!ws : ' ' ;\n\n")
	return sb.String()
}

func (s *GSpec) text() string {
	if s.Raw != "" {
		return s.Raw
	}
	return s.lexText() + s.syntaxText()
}

// grammar builds the augmented grammar S' -> S with productions in grammar
// order (S = head of the first production).  Terminal 0 is the end marker; the
// others are numbered in order of first use (the numbering is private to the
// reference: tables are compared by terminal NAME through
// token.TokMap.typeMap).  Nonterminals are the heads, numbered in order of
// first definition; every other symbol is a terminal.
func (s *GSpec) grammar() *Grammar {
	fl := s.flat()
	g := &Grammar{Terms: []string{"␚"}, End: 0, NTs: []string{"S'"}}
	ntIdx := map[string]int{}
	for _, p := range fl {
		if _, ok := ntIdx[p.Head]; !ok {
			ntIdx[p.Head] = len(g.NTs)
			g.NTs = append(g.NTs, p.Head)
		}
	}
	tIdx := map[string]int{}
	for _, p := range fl {
		for _, sym := range p.Body {
			if _, isNT := ntIdx[sym]; isNT {
				continue
			}
			if _, ok := tIdx[sym]; !ok {
				tIdx[sym] = len(g.Terms)
				g.Terms = append(g.Terms, sym)
			}
		}
	}
	nT := len(g.Terms)
	g.Prods = append(g.Prods, Prod{Head: 0, Body: []int{nT + 1}})
	g.ProdDisp = append(g.ProdDisp, "S' : "+fl[0].Head)
	for _, p := range fl {
		body := []int{}
		for _, sym := range p.Body {
			if n, isNT := ntIdx[sym]; isNT {
				body = append(body, nT+n)
			} else {
				body = append(body, tIdx[sym])
			}
		}
		g.Prods = append(g.Prods, Prod{Head: ntIdx[p.Head], Body: body})
		d := strings.Join(p.Disp, " ")
		if len(p.Body) == 0 {
			d = "empty"
		}
		g.ProdDisp = append(g.ProdDisp, p.Head+" : "+d)
	}
	if err := g.prepare(); err != nil {
		panic(err)
	}
	return g
}

// Case is one run of gocc: a grammar plus flags.
type Case struct {
	ID    string
	Spec  *GSpec
	Text  string
	Flags []string
}

func caseID(text string, flags []string) string {
	h := sha256.Sum256([]byte(text + "\x00" + strings.Join(flags, " ")))
	return hex.EncodeToString(h[:6])
}

// ---- enumeration ---------------------------------------------------------

type enumerator struct {
	seen  map[string]bool
	specs []*GSpec
	tiers map[string]int
}

func newEnumerator() *enumerator {
	return &enumerator{seen: map[string]bool{}, tiers: map[string]int{}}
}

// add registers a grammar unless it is a textual duplicate or has two
// identical alternatives for one nonterminal (productions form a set; gocc
// merges textually identical productions, see README).
func (e *enumerator) add(alts [][][]string, tier string) bool {
	for _, as := range alts {
		seen := map[string]bool{}
		for _, a := range as {
			k := strings.Join(a, " ")
			if seen[k] {
				return false
			}
			seen[k] = true
		}
	}
	cp := make([][][]string, len(alts))
	for i, as := range alts {
		cp[i] = make([][]string, len(as))
		for j, a := range as {
			cp[i][j] = append([]string{}, a...)
		}
	}
	s := &GSpec{Alts: cp, Tier: tier}
	t := s.syntaxText()
	if e.seen[t] {
		return false
	}
	e.seen[t] = true
	e.specs = append(e.specs, s)
	e.tiers[tier]++
	return true
}

// addSpec registers a ready-made grammar (own nonterminal names and lexical
// part) unless its text is a duplicate.
func (e *enumerator) addSpec(s *GSpec) bool {
	t := s.text()
	if e.seen[t] {
		return false
	}
	e.seen[t] = true
	e.specs = append(e.specs, s)
	e.tiers[s.Tier]++
	return true
}

// bodies lists all symbol strings of length 0..maxLen over the alphabet, in
// order of length then lexicographically.
func bodies(alpha []string, maxLen int) [][]string {
	res := [][]string{{}}
	prev := [][]string{{}}
	for l := 1; l <= maxLen; l++ {
		var cur [][]string
		for _, p := range prev {
			for _, a := range alpha {
				b := append(append([]string{}, p...), a)
				cur = append(cur, b)
			}
		}
		res = append(res, cur...)
		prev = cur
	}
	return res
}

// exhaustive1 enumerates ALL grammars with the single nonterminal S over the
// first nTerm terminals, with exactly nAlts ordered, pairwise different
// alternatives of length 0..maxLen.
func (e *enumerator) exhaustive1(tier string, nTerm, nAlts, maxLen int) {
	alpha := append(append([]string{}, termNames[:nTerm]...), "S")
	bs := bodies(alpha, maxLen)
	idx := make([]int, nAlts)
	for {
		alts := make([][]string, nAlts)
		for i, k := range idx {
			alts[i] = bs[k]
		}
		e.add([][][]string{alts}, tier)
		i := nAlts - 1
		for i >= 0 {
			idx[i]++
			if idx[i] < len(bs) {
				break
			}
			idx[i] = 0
			i--
		}
		if i < 0 {
			return
		}
	}
}

func splitmix(x uint64) uint64 {
	x += 0x9E3779B97F4A7C15
	x = (x ^ (x >> 30)) * 0xBF58476D1CE4E5B9
	x = (x ^ (x >> 27)) * 0x94D049BB133111EB
	return x ^ (x >> 31)
}

// weyl yields the mixed-radix digits of sample number k.  Digit j of sample k
// is floor(radix * frac(k * m_j / 2^64)) for a fixed odd multiplier m_j: every
// digit position walks through its range with its own constant stride, so the
// samples k = 1, 2, 3, ... form a deterministic, evenly spread stride through
// the full product space (no random numbers involved).
type weyl struct {
	k    uint64
	salt uint64
	j    uint64
}

func (w *weyl) next(radix int) int {
	w.j++
	m := splitmix(w.salt*1000003+w.j) | 1
	x := w.k * m
	return int(((x >> 32) * uint64(radix)) >> 32)
}

// sampled takes count stride samples from the space of grammars with nNT
// nonterminals over the first nTerm terminals, 1..maxAlts alternatives per
// nonterminal and bodies of length 0..maxLen (the body length is a digit of
// its own, so all lengths are equally frequent).  With errFamily every
// alternative additionally starts with `error` with frequency 1/3 (then at
// most maxLen-1 further symbols follow) and at least one alternative does.
func (e *enumerator) sampled(tier string, salt uint64, count, nNT, nTerm, maxAlts, maxLen int, errFamily bool) {
	alpha := append(append([]string{}, termNames[:nTerm]...), ntNames[:nNT]...)
	for k := 1; k <= count; k++ {
		w := &weyl{k: uint64(k), salt: salt}
		alts := make([][][]string, nNT)
		anyErr := false
		for n := 0; n < nNT; n++ {
			na := 1 + w.next(maxAlts)
			for a := 0; a < maxAlts; a++ {
				l := w.next(maxLen + 1)
				isErr := w.next(3) == 0
				syms := make([]string, maxLen)
				for p := 0; p < maxLen; p++ {
					syms[p] = alpha[w.next(len(alpha))]
				}
				if a >= na {
					continue
				}
				var body []string
				if errFamily && isErr {
					if l > maxLen-1 {
						l = maxLen - 1
					}
					body = append([]string{"error"}, syms[:l]...)
					anyErr = true
				} else {
					body = syms[:l]
				}
				dup := false
				for _, o := range alts[n] {
					if strings.Join(o, " ") == strings.Join(body, " ") {
						dup = true
					}
				}
				if !dup {
					alts[n] = append(alts[n], body)
				}
			}
		}
		if errFamily && !anyErr {
			n := w.next(nNT)
			b := alts[n][0]
			if len(b) > maxLen-1 {
				b = b[:maxLen-1]
			}
			nb := append([]string{"error"}, b...)
			dup := false
			for _, o := range alts[n][1:] {
				if strings.Join(o, " ") == strings.Join(nb, " ") {
					dup = true
				}
			}
			if dup {
				continue
			}
			alts[n][0] = nb
		}
		e.add(alts, tier)
	}
}

// scopeSpecs returns the grammars of a scope in canonical order.
//
// quick:    nonterminals S, A; terminals a, b; 1..2 alternatives; bodies 0..3.
// thorough: all of quick, plus nonterminals S, A, B; terminals a, b, c;
//
//	1..3 alternatives; bodies 0..3.
func scopeSpecs(scope string) (*enumerator, bool) {
	e := newEnumerator()
	quick := func() {
		// Q1: every 1-nonterminal grammar over {a,b,S}, 1..2 alternatives, bodies 0..2.
		e.exhaustive1("Q1-exh-1nt-len2", 2, 1, 2)
		e.exhaustive1("Q1-exh-1nt-len2", 2, 2, 2)
		// Q2: 1 nonterminal, bodies up to 3.
		e.sampled("Q2-1nt-len3", 11, 40, 1, 2, 2, 3, false)
		// Q3: 2 nonterminals.
		e.sampled("Q3-2nt-len3", 12, 170, 2, 2, 2, 3, false)
		// Q4: error family, 1 and 2 nonterminals.
		e.sampled("Q4-err-1nt", 13, 40, 1, 2, 2, 3, true)
		e.sampled("Q4-err-2nt", 14, 70, 2, 2, 2, 3, true)
		// Q5: FIRST-set propagation through chains of 4 and 5 nonterminals.
		e.addChains("Q5-chains")
	}
	switch scope {
	case "quick":
		quick()
	case "thorough":
		quick()
		// longer runs of the quick strides Q3 and Q4 (the samples are prefix stable)
		e.sampled("Q3-2nt-len3", 12, 300, 2, 2, 2, 3, false)
		e.sampled("Q4-err-2nt", 14, 110, 2, 2, 2, 3, true)
		// T1: exhaustive, 1 nonterminal over {a,b,c,S}: 1..2 alternatives of
		// length 0..2, and 3 alternatives of length 0..1.
		e.exhaustive1("T1-exh-1nt-abc-len2", 3, 1, 2)
		e.exhaustive1("T1-exh-1nt-abc-len2", 3, 2, 2)
		e.exhaustive1("T1-exh-1nt-abc-3alts-len1", 3, 3, 1)
		// T2: exhaustive, 1 nonterminal over {a,b,S}, 1..2 alternatives of length 0..3.
		e.exhaustive1("T2-exh-1nt-ab-len3", 2, 1, 3)
		e.exhaustive1("T2-exh-1nt-ab-len3", 2, 2, 3)
		// T3..T5: stride samples.
		e.sampled("T3-2nt-ab", 21, 2500, 2, 2, 3, 3, false)
		e.sampled("T3-2nt-abc", 22, 5000, 2, 3, 3, 3, false)
		e.sampled("T4-3nt-abc", 23, 6500, 3, 3, 3, 3, false)
		e.sampled("T4-3nt-abc-len2", 24, 1500, 3, 3, 3, 2, false)
		e.sampled("T5-err-1nt", 25, 600, 1, 3, 3, 3, true)
		e.sampled("T5-err-2nt", 26, 2400, 2, 3, 3, 3, true)
		e.sampled("T5-err-3nt", 27, 2000, 3, 3, 3, 3, true)
	default:
		return nil, false
	}
	return e, true
}

// buildCases expands the grammars into cases (without and with -a) and applies
// the seed: seed 0 keeps the canonical order, any other seed applies a
// Fisher-Yates permutation driven by splitmix64(seed).  The SET of cases does
// not depend on the seed.
func buildCases(specs []*GSpec, seed uint64) []*Case {
	var cases []*Case
	for _, s := range specs {
		t := s.text()
		for _, fl := range [][]string{{}, {"-a"}} {
			cases = append(cases, &Case{ID: caseID(t, fl), Spec: s, Text: t, Flags: fl})
		}
	}
	if seed != 0 {
		st := seed
		for i := len(cases) - 1; i > 0; i-- {
			st = splitmix(st)
			j := int(st % uint64(i+1))
			cases[i], cases[j] = cases[j], cases[i]
		}
	}
	return cases
}

func tierSummary(e *enumerator) []string {
	var ks []string
	for k := range e.tiers {
		ks = append(ks, k)
	}
	sort.Strings(ks)
	return ks
}
