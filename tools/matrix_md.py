#!/usr/bin/env python3
"""Merges seeded/MATRIX.json with later partial runs (log files given as arguments, one dict per line) and prints the
markdown table of DESIGN.md section E; writes the merged matrix back."""
import sys, json, ast, os
V = os.path.dirname(os.path.dirname(os.path.abspath(__file__)))
rows = {r["seed"]: r for r in json.load(open(os.path.join(V, "seeded", "MATRIX.json")))}
for lf in sys.argv[1:]:
    for l in open(lf):
        l = l.strip()
        if l.startswith("{'seed'"):
            r = ast.literal_eval(l)
            rows[r["seed"]] = r
import glob
for p in sorted(glob.glob(os.path.join(V, "seeded", "C*-*", "meta.json"))):
    rel = os.path.relpath(os.path.dirname(p), V) + "/patch.diff"
    m = json.load(open(p))
    if rel in rows:
        rows[rel]["summary"] = (m.get("summary") or "")[:160]
        if m.get("status"):
            rows[rel]["status"] = m["status"]
out = [rows[k] for k in sorted(rows)]
json.dump(out, open(os.path.join(V, "seeded", "MATRIX.json"), "w"), indent=1)
print("| change | property | result of `./check <ID>` (quick) on the changed tree | found by |")
print("|---|---|---|---|")
for r in out:
    name = r["seed"].replace("/patch.diff", "").replace("seeded/", "").replace("selftest/", "canary ")
    res = r["result"]
    if r.get("status", "").startswith("superseded"):
        res += " (superseded, see meta.json)"
    how = (r.get("how") or "").strip().lstrip(":").strip()
    how = how.replace("|", "/")
    if len(how) > 150:
        how = how[:150] + "…"
    if r.get("degraded"):
        how += " (function degraded: stand-in decided)"
    print("| %s | %s | %s | %s |" % (name, r["property"], res, how or "bounded case / frame obligation, replayed"))
n = len([r for r in out if r["seed"].startswith("seeded/")])
d = len([r for r in out if r["seed"].startswith("seeded/") and r["result"] == "detected"])
print("\n%d of %d seeded changes detected; canaries (reverted fixes): %d of %d." % (d, n, len([r for r in out if r["seed"].startswith("selftest/") and r["result"] == "detected"]), len([r for r in out if r["seed"].startswith("selftest/")])))
