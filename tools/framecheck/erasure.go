package main

// erasure mode (C12): the debug expansion of every function equals the plain expansion plus inserted statements,
// each of which is a call to fmt.Printf (possibly wrapped in an if without else whose body is only such calls)
// whose arguments call nothing but the side-effect free helpers listed below.
//   [erasure:<pkg>.<func>]   debug function with the print statements erased == plain function (AST equality)
//   [pure-args:<pkg>.<func>] every call inside the erased statements is to an allowed pure function

import (
	"bytes"
	"fmt"
	"go/ast"
	"go/parser"
	"go/printer"
	"go/token"
	"os"
	"path/filepath"
	"sort"
	"strings"
)

var pureDebugCalls = map[string]bool{
	"token.TokMap.Id": true, "token.TokMap.TokenString": true, "util.RuneToString": true, "tok.String": true,
	"p.stack.top": true, "len": true, "string": true, "int": true,
}

func isPrintf(s ast.Stmt) bool {
	es, ok := s.(*ast.ExprStmt)
	if !ok {
		return false
	}
	c, ok := es.X.(*ast.CallExpr)
	if !ok {
		return false
	}
	se, ok := c.Fun.(*ast.SelectorExpr)
	if !ok {
		return false
	}
	id, ok := se.X.(*ast.Ident)
	return ok && id.Name == "fmt" && (se.Sel.Name == "Printf" || se.Sel.Name == "Println")
}

func debugOnly(s ast.Stmt) bool {
	if isPrintf(s) {
		return true
	}
	if is, ok := s.(*ast.IfStmt); ok && is.Else == nil && is.Init == nil {
		for _, b := range is.Body.List {
			if !debugOnly(b) {
				return false
			}
		}
		return len(is.Body.List) > 0
	}
	return false
}

func eraseBlock(b *ast.BlockStmt, removed *[]ast.Stmt) {
	if b == nil {
		return
	}
	var out []ast.Stmt
	for _, s := range b.List {
		if debugOnly(s) {
			*removed = append(*removed, s)
			continue
		}
		ast.Inspect(s, func(n ast.Node) bool {
			switch x := n.(type) {
			case *ast.BlockStmt:
				eraseBlock(x, removed)
				return false
			case *ast.CaseClause:
				var body []ast.Stmt
				for _, cs := range x.Body {
					if debugOnly(cs) {
						*removed = append(*removed, cs)
						continue
					}
					body = append(body, cs)
				}
				x.Body = body
			}
			return true
		})
		out = append(out, s)
	}
	b.List = out
}

func render(fset *token.FileSet, n ast.Node) string {
	var buf bytes.Buffer
	printer.Fprint(&buf, fset, n)
	// compare modulo layout
	return strings.Join(strings.Fields(buf.String()), " ")
}

func funcsOf(dir string) (map[string]*ast.FuncDecl, *token.FileSet) {
	fset := token.NewFileSet()
	m := map[string]*ast.FuncDecl{}
	files, _ := filepath.Glob(filepath.Join(dir, "*.go"))
	for _, f := range files {
		if strings.HasSuffix(f, "_test.go") {
			continue
		}
		af, err := parser.ParseFile(fset, f, nil, 0)
		if err != nil {
			fmt.Fprintln(os.Stderr, "framecheck: parse:", err)
			os.Exit(2)
		}
		for _, d := range af.Decls {
			if fd, ok := d.(*ast.FuncDecl); ok {
				name := fd.Name.Name
				if fd.Recv != nil && len(fd.Recv.List) == 1 {
					var b bytes.Buffer
					printer.Fprint(&b, fset, fd.Recv.List[0].Type)
					name = "(" + b.String() + ")." + name
				}
				m[filepath.Base(dir)+"."+name] = fd
			}
		}
	}
	return m, fset
}

func erasure(plain, debug string, pkgs []string) *result {
	res := &result{Mode: "erasure"}
	for _, pk := range pkgs {
		pf, pfset := funcsOf(filepath.Join(plain, pk))
		df, dfset := funcsOf(filepath.Join(debug, pk))
		res.Packages = append(res.Packages, pk)
		var names []string
		for n := range df {
			names = append(names, n)
		}
		for n := range pf {
			if _, ok := df[n]; !ok {
				names = append(names, n)
			}
		}
		sort.Strings(names)
		for _, n := range names {
			res.Functions++
			res.Obligations += 2
			d, p := df[n], pf[n]
			if d == nil || p == nil {
				res.Findings = append(res.Findings, finding{"erasure:" + n, n, "", "function exists in only one of the plain and debug expansions"})
				continue
			}
			var removed []ast.Stmt
			eraseBlock(d.Body, &removed)
			if render(dfset, d) != render(pfset, p) {
				res.Findings = append(res.Findings, finding{"erasure:" + n, n, dfset.Position(d.Pos()).String(), "the debug expansion differs from the plain one by more than inserted fmt.Printf statements"})
			} else {
				res.Discharged++
			}
			bad := ""
			for _, s := range removed {
				ast.Inspect(s, func(x ast.Node) bool {
					c, ok := x.(*ast.CallExpr)
					if !ok {
						return true
					}
					var b bytes.Buffer
					printer.Fprint(&b, dfset, c.Fun)
					f := b.String()
					if f == "fmt.Printf" || f == "fmt.Println" || pureDebugCalls[f] || strings.HasSuffix(f, ".String") || f == "token.Type" {
						return true
					}
					bad = f
					return true
				})
				ast.Inspect(s, func(x ast.Node) bool {
					switch x.(type) {
					case *ast.AssignStmt, *ast.IncDecStmt, *ast.GoStmt, *ast.DeferStmt, *ast.SendStmt:
						bad = "a statement with an effect"
					}
					return true
				})
			}
			if bad != "" {
				res.Findings = append(res.Findings, finding{"pure-args:" + n, n, dfset.Position(d.Pos()).String(), "a debug statement calls " + bad + ", which is not a listed side-effect free helper"})
			} else {
				res.Discharged++
			}
			if len(removed) > 0 && len(res.Samples) < 10 {
				res.Samples = append(res.Samples, fmt.Sprintf("%s: %d debug statements erased", n, len(removed)))
			}
		}
	}
	return res
}
