package main

// inventory mode (C11): sources of nondeterminism reachable in the generator.
//   [no-concurrency]   no go statement, select, channel operation
//   [no-ambient-input] no use of time, math/rand, os.Getenv/Environ, os.Getpid, runtime.NumCPU/GOMAXPROCS
//   [map-range:<func>#<k>] every range over a map must match an entry of the allowlist, whose category is
//                      re-checked mechanically against the loop's shape:
//        sorted     the loop only appends the key to a slice and that slice is passed to sort.Strings before it is used
//        insert     the body only inserts into maps / calls methods named in the allowlist entry (commutative, idempotent)
//        search     the body is a single `if ... { return <constant> }` (no other effect)
//        sink       the enclosing function only builds text for diagnostics: it is named in the entry and the loop's
//                   effects are confined to fmt.Fprint*/Builder writes, or (conflicts) to a slice whose elements are not
//                   used for generated files
//        empty      the ranged map is never populated (no assignment to it anywhere in the module)

import (
	"bufio"
	"fmt"
	"go/ast"
	"go/token"
	"go/types"
	"os"
	"sort"
	"strings"

	"golang.org/x/tools/go/packages"
)

type allowEntry struct {
	key, cat string
	args     []string
	used     bool
}

func readAllow(path string) map[string]*allowEntry {
	m := map[string]*allowEntry{}
	f, err := os.Open(path)
	if err != nil {
		fmt.Fprintln(os.Stderr, "framecheck: allowlist:", err)
		os.Exit(2)
	}
	defer f.Close()
	sc := bufio.NewScanner(f)
	for sc.Scan() {
		l := strings.TrimSpace(sc.Text())
		if l == "" || strings.HasPrefix(l, "#") {
			continue
		}
		fs := strings.Fields(l)
		if len(fs) < 2 {
			continue
		}
		m[fs[0]] = &allowEntry{key: fs[0], cat: fs[1], args: fs[2:]}
	}
	return m
}

func inventory(dir string, pats []string, allowPath string) *result {
	res := &result{Mode: "inventory"}
	allow := readAllow(allowPath)
	cfg := &packages.Config{Mode: packages.LoadAllSyntax | packages.NeedModule, Dir: dir, Fset: token.NewFileSet()}
	pkgs, err := packages.Load(cfg, pats...)
	if err != nil {
		fmt.Fprintln(os.Stderr, "framecheck: load:", err)
		os.Exit(2)
	}
	// reachable module packages from the roots
	var mod []*packages.Package
	seen := map[string]bool{}
	var visit func(p *packages.Package)
	visit = func(p *packages.Package) {
		if seen[p.PkgPath] {
			return
		}
		seen[p.PkgPath] = true
		if p.Module == nil || !p.Module.Main {
			return
		}
		for _, e := range p.Errors {
			fmt.Fprintln(os.Stderr, "framecheck: package error:", e)
			os.Exit(2)
		}
		mod = append(mod, p)
		for _, ip := range p.Imports {
			visit(ip)
		}
	}
	for _, p := range pkgs {
		visit(p)
	}
	sort.Slice(mod, func(i, j int) bool { return mod[i].PkgPath < mod[j].PkgPath })
	pos := func(p *packages.Package, n ast.Node) string {
		pp := p.Fset.Position(n.Pos())
		f := pp.Filename
		if i := strings.LastIndex(f, "/internal/"); i >= 0 {
			f = f[i+1:]
		} else if i := strings.LastIndex(f, "/"); i >= 0 {
			f = f[i+1:]
		}
		return fmt.Sprintf("%s:%d", f, pp.Line)
	}
	fail := func(ob, fn, p, what string) {
		res.Findings = append(res.Findings, finding{ob, fn, p, what})
	}
	// reference graph over the module's functions: an edge for every mention of a function (call or value) inside
	// a function body; package-level initialisers (tables of function literals) and init functions are roots
	// together with main.main. A function not reachable in this graph is never executed.
	ifaceCalls := map[string]bool{} // names of methods selected on interface-typed values anywhere in the module
	refs := map[*types.Func]map[*types.Func]bool{}
	var roots []*types.Func
	rootRefs := map[*types.Func]bool{}
	for _, p := range mod {
		for _, f := range p.Syntax {
			for _, d := range f.Decls {
				switch dd := d.(type) {
				case *ast.FuncDecl:
					self, _ := p.TypesInfo.Defs[dd.Name].(*types.Func)
					if self == nil {
						continue
					}
					if refs[self] == nil {
						refs[self] = map[*types.Func]bool{}
					}
					if (dd.Name.Name == "main" && p.Types.Name() == "main") || (dd.Name.Name == "init" && dd.Recv == nil) {
						roots = append(roots, self)
					}
					if dd.Body != nil {
						ast.Inspect(dd.Body, func(n ast.Node) bool {
							if se, ok := n.(*ast.SelectorExpr); ok {
								if sel, ok := p.TypesInfo.Selections[se]; ok {
									if _, isI := sel.Recv().Underlying().(*types.Interface); isI {
										ifaceCalls[se.Sel.Name] = true
									}
								}
							}
							if id, ok := n.(*ast.Ident); ok {
								if fn, ok := p.TypesInfo.Uses[id].(*types.Func); ok {
									refs[self][fn] = true
								}
							}
							return true
						})
					}
				case *ast.GenDecl:
					ast.Inspect(dd, func(n ast.Node) bool {
						if id, ok := n.(*ast.Ident); ok {
							if fn, ok := p.TypesInfo.Uses[id].(*types.Func); ok {
								rootRefs[fn] = true
							}
						}
						return true
					})
				}
			}
		}
	}
	reach := map[*types.Func]bool{}
	var walk func(fn *types.Func)
	walk = func(fn *types.Func) {
		if reach[fn] {
			return
		}
		reach[fn] = true
		for g := range refs[fn] {
			walk(g)
		}
		// a method may be reached through an interface: treat every method with the same name as referenced
	}
	for _, r := range roots {
		walk(r)
	}
	for r := range rootRefs {
		walk(r)
	}
	// interface dispatch: a method is reachable if some reachable function mentions a method of that name
	for changed := true; changed; {
		changed = false
		names := ifaceCalls
		for fn := range refs {
			if !reach[fn] && fn.Type().(*types.Signature).Recv() != nil && names[fn.Name()] {
				walk(fn)
				changed = true
			}
		}
	}
	// assignments to map-typed fields inside reachable functions (for category empty)
	populated := map[string]bool{}
	for _, p := range mod {
		for _, f := range p.Syntax {
			for _, d := range f.Decls {
				fd, ok := d.(*ast.FuncDecl)
				if !ok || fd.Body == nil {
					continue
				}
				self, _ := p.TypesInfo.Defs[fd.Name].(*types.Func)
				if self != nil && !reach[self] {
					continue
				}
				ast.Inspect(fd.Body, func(n ast.Node) bool {
					if as, ok := n.(*ast.AssignStmt); ok {
						for _, l := range as.Lhs {
							if ix, ok := l.(*ast.IndexExpr); ok {
								if se, ok := ix.X.(*ast.SelectorExpr); ok {
									if t := p.TypesInfo.TypeOf(se); t != nil {
										if _, isMap := t.Underlying().(*types.Map); isMap {
											populated[se.Sel.Name] = true
										}
									}
								}
							}
						}
					}
					return true
				})
			}
		}
	}
	for _, p := range mod {
		res.Packages = append(res.Packages, p.PkgPath)
		for _, f := range p.Syntax {
			if strings.HasSuffix(p.Fset.Position(f.Pos()).Filename, "_test.go") {
				continue
			}
			for _, imp := range f.Imports {
				path := strings.Trim(imp.Path.Value, "\"")
				res.Obligations++
				switch path {
				case "time", "math/rand", "math/rand/v2", "crypto/rand", "sync", "sync/atomic":
					fail("no-ambient-input", p.PkgPath, pos(p, imp), "imports "+path)
				default:
					res.Discharged++
				}
			}
			for _, d := range f.Decls {
				fd, ok := d.(*ast.FuncDecl)
				if !ok || fd.Body == nil {
					continue
				}
				res.Functions++
				fname := p.Types.Name() + "." + fd.Name.Name
				if fd.Recv != nil && len(fd.Recv.List) == 1 {
					fname = p.Types.Name() + ".(" + types.ExprString(fd.Recv.List[0].Type) + ")." + fd.Name.Name
				}
				k := 0
				ast.Inspect(fd.Body, func(n ast.Node) bool {
					switch s := n.(type) {
					case *ast.GoStmt:
						res.Obligations++
						fail("no-concurrency", fname, pos(p, s), "go statement")
					case *ast.SelectStmt, *ast.SendStmt:
						res.Obligations++
						fail("no-concurrency", fname, pos(p, s), "channel operation")
					case *ast.CallExpr:
						if se, ok := s.Fun.(*ast.SelectorExpr); ok {
							if id, ok := se.X.(*ast.Ident); ok {
								if pn, ok := p.TypesInfo.Uses[id].(*types.PkgName); ok {
									q := pn.Imported().Path() + "." + se.Sel.Name
									switch q {
									case "os.Getenv", "os.Environ", "os.Getpid", "os.Hostname", "os.Getwd", "runtime.NumCPU", "runtime.GOMAXPROCS", "os.LookupEnv":
										if q == "os.Getwd" && strings.HasSuffix(p.PkgPath, "/config") {
											break // the working directory is part of the configuration (property: "in the same directory")
										}
										res.Obligations++
										fail("no-ambient-input", fname, pos(p, s), "calls "+q)
									}
								}
							}
						}
					case *ast.RangeStmt:
						t := p.TypesInfo.TypeOf(s.X)
						if t == nil {
							return true
						}
						if _, isMap := t.Underlying().(*types.Map); !isMap {
							return true
						}
						k++
						key := fmt.Sprintf("%s#%d", fname, k)
						res.Obligations++
						e := allow[key]
						if e == nil {
							fail("map-range:"+key, fname, pos(p, s), "range over a map ("+types.ExprString(s.X)+") that is not in the inventory: its iteration order may reach generated files")
							return true
						}
						e.used = true
						if msg := checkCategory(p, fd, s, e, populated); msg != "" {
							fail("map-range:"+key, fname, pos(p, s), "no longer matches category "+e.cat+": "+msg)
							return true
						}
						res.Discharged++
						if len(res.Samples) < 30 {
							res.Samples = append(res.Samples, key+" "+e.cat+" "+pos(p, s))
						}
					}
					return true
				})
			}
		}
	}
	return res
}

func checkCategory(p *packages.Package, fd *ast.FuncDecl, rs *ast.RangeStmt, e *allowEntry, populated map[string]bool) string {
	body := rs.Body.List
	switch e.cat {
	case "sorted":
		// for k := range m { s = append(s, k) } ... sort.Strings(s)
		if len(body) != 1 {
			return "body is not a single append"
		}
		as, ok := body[0].(*ast.AssignStmt)
		if !ok || len(as.Lhs) != 1 || len(as.Rhs) != 1 {
			return "body is not a single append"
		}
		call, ok := as.Rhs[0].(*ast.CallExpr)
		if !ok || types.ExprString(call.Fun) != "append" || len(call.Args) != 2 || types.ExprString(call.Args[0]) != types.ExprString(as.Lhs[0]) {
			return "body is not s = append(s, key)"
		}
		if rs.Key == nil || types.ExprString(call.Args[1]) != types.ExprString(rs.Key) {
			return "appended value is not the key"
		}
		slice := types.ExprString(as.Lhs[0])
		// the next statement that mentions the slice after the loop must be sort.Strings(slice)
		found, sorted := false, false
		after := false
		ast.Inspect(fd.Body, func(n ast.Node) bool {
			if n == ast.Node(rs) {
				after = true
				return false
			}
			if !after || found {
				return true
			}
			if st, ok := n.(ast.Stmt); ok {
				mention := false
				ast.Inspect(st, func(m ast.Node) bool {
					if id, ok := m.(*ast.Ident); ok && id.Name == slice {
						mention = true
					}
					return true
				})
				if _, isBlock := st.(*ast.BlockStmt); mention && !isBlock {
					found = true
					if es, ok := st.(*ast.ExprStmt); ok {
						if c, ok := es.X.(*ast.CallExpr); ok && types.ExprString(c.Fun) == "sort.Strings" && len(c.Args) == 1 && types.ExprString(c.Args[0]) == slice {
							sorted = true
						}
					}
					return false
				}
			}
			return true
		})
		if !sorted {
			return "the collected keys are not passed to sort.Strings before their first use"
		}
		return ""
	case "insert":
		okCalls := map[string]bool{}
		for _, a := range e.args {
			okCalls[a] = true
		}
		for _, st := range body {
			if msg := insertOnly(st, okCalls); msg != "" {
				return msg
			}
		}
		return ""
	case "search":
		if len(body) != 1 {
			return "body is not a single if-return"
		}
		ifs, ok := body[0].(*ast.IfStmt)
		if !ok || ifs.Else != nil || len(ifs.Body.List) != 1 {
			return "body is not a single if-return"
		}
		ret, ok := ifs.Body.List[0].(*ast.ReturnStmt)
		if !ok {
			return "if body is not a return"
		}
		for _, r := range ret.Results {
			if id, ok := r.(*ast.Ident); !ok || (id.Name != "true" && id.Name != "false" && id.Name != "nil") {
				return "returned value is not a constant"
			}
		}
		return ""
	case "sink":
		// effects confined to text building, or to the variables named in the entry
		okVars := map[string]bool{}
		for _, a := range e.args {
			okVars[a] = true
		}
		msg := ""
		ast.Inspect(rs.Body, func(n ast.Node) bool {
			switch s := n.(type) {
			case *ast.AssignStmt:
				for _, l := range s.Lhs {
					root := l
					for {
						switch x := root.(type) {
						case *ast.IndexExpr:
							root = x.X
							continue
						case *ast.SelectorExpr:
							root = x.X
							continue
						}
						break
					}
					if id, ok := root.(*ast.Ident); ok {
						if s.Tok == token.DEFINE || okVars[id.Name] || id.Name == "_" {
							continue
						}
						msg = "assigns " + id.Name + ", which is not declared a diagnostic-only variable"
					}
				}
			case *ast.CallExpr:
				f := types.ExprString(s.Fun)
				if strings.HasPrefix(f, "fmt.Fprint") || strings.HasPrefix(f, "fmt.Sprint") || f == "append" || f == "panic" || strings.HasSuffix(f, ".String") || strings.HasSuffix(f, ".WriteString") || f == "len" || f == "string" || f == "strconv.Itoa" || strings.HasSuffix(f, ".Id") || strings.HasSuffix(f, ".TokString") || strings.HasSuffix(f, ".TokenString") {
					return true
				}
				if tv, ok := p.TypesInfo.Types[s.Fun]; ok && tv.IsType() {
					return true // a conversion
				}
				if okVars["call:"+f] {
					return true
				}
				msg = "calls " + f
			}
			return true
		})
		return msg
	case "empty":
		if len(e.args) != 1 {
			return "entry needs the field name"
		}
		if populated[e.args[0]] {
			return "the map field " + e.args[0] + " is now assigned somewhere in the module"
		}
		if !strings.HasSuffix(types.ExprString(rs.X), "."+e.args[0]) {
			return "ranges over a different map"
		}
		return ""
	}
	return "unknown category"
}

func insertOnly(st ast.Stmt, okCalls map[string]bool) string {
	switch s := st.(type) {
	case *ast.AssignStmt:
		for _, l := range s.Lhs {
			if _, ok := l.(*ast.IndexExpr); !ok {
				if id, ok := l.(*ast.Ident); ok && (s.Tok == token.DEFINE || okCalls["var:"+id.Name]) {
					continue
				}
				return "assignment to something other than a map entry: " + types.ExprString(l)
			}
		}
		return ""
	case *ast.ExprStmt:
		if c, ok := s.X.(*ast.CallExpr); ok {
			f := types.ExprString(c.Fun)
			if i := strings.LastIndex(f, "."); i >= 0 && okCalls[f[i+1:]] {
				return ""
			}
			if strings.HasPrefix(f, "fmt.Fprint") {
				return ""
			}
			return "calls " + f
		}
	case *ast.IfStmt:
		for _, b := range s.Body.List {
			if m := insertOnly(b, okCalls); m != "" {
				return m
			}
		}
		if s.Else != nil {
			return insertOnly(s.Else, okCalls)
		}
		return ""
	case *ast.BlockStmt:
		for _, b := range s.List {
			if m := insertOnly(b, okCalls); m != "" {
				return m
			}
		}
		return ""
	}
	return fmt.Sprintf("statement %T", st)
}

// deadfield mode (C13): the field is never read anywhere in the module (it may be written).
//   [dead-field:<type>.<field>]
func deadfield(dir string, pats []string, typ, field string) *result {
	res := &result{Mode: "deadfield", Obligations: 1}
	cfg := &packages.Config{Mode: packages.LoadAllSyntax | packages.NeedModule, Dir: dir, Fset: token.NewFileSet()}
	pkgs, err := packages.Load(cfg, pats...)
	if err != nil {
		fmt.Fprintln(os.Stderr, "framecheck: load:", err)
		os.Exit(2)
	}
	seen := map[string]bool{}
	found := false
	reads := 0
	var visit func(p *packages.Package)
	visit = func(p *packages.Package) {
		if seen[p.PkgPath] {
			return
		}
		seen[p.PkgPath] = true
		if p.Module == nil || !p.Module.Main {
			return
		}
		for _, ip := range p.Imports {
			visit(ip)
		}
		res.Packages = append(res.Packages, p.PkgPath)
		for _, f := range p.Syntax {
			if strings.HasSuffix(p.Fset.Position(f.Pos()).Filename, "_test.go") {
				continue
			}
			// collect selector expressions that are assignment targets
			written := map[*ast.SelectorExpr]bool{}
			ast.Inspect(f, func(n ast.Node) bool {
				if as, ok := n.(*ast.AssignStmt); ok {
					for _, l := range as.Lhs {
						if se, ok := l.(*ast.SelectorExpr); ok {
							written[se] = true
						}
					}
				}
				return true
			})
			ast.Inspect(f, func(n ast.Node) bool {
				se, ok := n.(*ast.SelectorExpr)
				if !ok {
					return true
				}
				sel, ok := p.TypesInfo.Selections[se]
				if !ok || sel.Kind() != types.FieldVal || sel.Obj().Name() != field {
					return true
				}
				recv := sel.Recv()
				if pt, ok := recv.(*types.Pointer); ok {
					recv = pt.Elem()
				}
				if n, ok := recv.(*types.Named); !ok || n.Obj().Pkg().Name()+"."+n.Obj().Name() != typ {
					return true
				}
				found = true
				if !written[se] {
					reads++
					pp := p.Fset.Position(se.Pos())
					res.Findings = append(res.Findings, finding{"dead-field:" + typ + "." + field, p.PkgPath, fmt.Sprintf("%s:%d", pp.Filename, pp.Line), "the field is read here: the spelling of the literal can now reach generated output"})
				}
				return true
			})
		}
	}
	for _, p := range pkgs {
		visit(p)
	}
	if !found {
		res.Samples = append(res.Samples, "field "+typ+"."+field+" is not mentioned at all")
	} else {
		res.Samples = append(res.Samples, "field "+typ+"."+field+" is only written")
	}
	if reads == 0 {
		res.Discharged = 1
	}
	res.Functions = len(res.Packages)
	return res
}
