package main

// framecheck: frame obligations over go/ssa.
//
//   framecheck shared -dir <module dir> -pkgs ./lexer,./parser,...   (C17)
//     For every function of the given packages except package initialisers (init, init#k) it discharges
//     the obligations
//       [no-shared-write]  no store, map update, append/copy destination or call argument written by the callee
//                          is derived from a package-level variable;
//       [no-shared-escape] no mutable reference (slice, map, pointer to non-immutable data) derived from a
//                          package-level variable is stored into memory, returned, or passed to a function that
//                          stores/returns it (it would let a later in-place edit reach shared state);
//     "Derived" is an over-approximation per SSA value (field/index/slice/load chains, phis, conversions,
//     interface boxing, results of calls that return a derived parameter).
//     Every violated obligation is reported with function and position; exit status 1.

import (
	"encoding/json"
	"flag"
	"fmt"
	"go/token"
	"go/types"
	"os"
	"sort"
	"strings"

	"golang.org/x/tools/go/packages"
	"golang.org/x/tools/go/ssa"
	"golang.org/x/tools/go/ssa/ssautil"
)

type finding struct {
	Obligation string `json:"obligation"`
	Func       string `json:"func"`
	Pos        string `json:"pos"`
	What       string `json:"what"`
}

type result struct {
	Mode        string    `json:"mode"`
	Packages    []string  `json:"packages"`
	Functions   int       `json:"functions"`
	Obligations int       `json:"obligations"`
	Discharged  int       `json:"discharged"`
	Findings    []finding `json:"findings"`
	Globals     []string  `json:"package_level_variables"`
	Samples     []string  `json:"samples"`
}

func main() {
	if len(os.Args) < 2 {
		fmt.Fprintln(os.Stderr, "usage: framecheck shared|inventory ...")
		os.Exit(2)
	}
	mode := os.Args[1]
	fs := flag.NewFlagSet(mode, flag.ExitOnError)
	dir := fs.String("dir", ".", "module directory")
	pkgsF := fs.String("pkgs", "./...", "comma separated package patterns")
	out := fs.String("out", "", "JSON output")
	allow := fs.String("allow", "", "allowlist file (inventory mode)")
	typ := fs.String("type", "", "pkg.Type (deadfield mode)")
	field := fs.String("field", "", "field name (deadfield mode)")
	plain := fs.String("plain", "", "plain expansion (erasure mode)")
	debug := fs.String("debug", "", "debug expansion (erasure mode)")
	fs.Parse(os.Args[2:])
	var res *result
	switch mode {
	case "shared":
		res = shared(*dir, strings.Split(*pkgsF, ","))
	case "inventory":
		res = inventory(*dir, strings.Split(*pkgsF, ","), *allow)
	case "deadfield":
		res = deadfield(*dir, strings.Split(*pkgsF, ","), *typ, *field)
	case "erasure":
		res = erasure(*plain, *debug, strings.Split(*pkgsF, ","))
	default:
		fmt.Fprintln(os.Stderr, "unknown mode", mode)
		os.Exit(2)
	}
	b, _ := json.MarshalIndent(res, "", " ")
	if *out != "" {
		os.WriteFile(*out, b, 0o644)
	}
	fmt.Printf("%s: functions=%d obligations=%d discharged=%d findings=%d\n", mode, res.Functions, res.Obligations, res.Discharged, len(res.Findings))
	for _, f := range res.Findings {
		fmt.Printf("  FAIL %s %s %s: %s\n", f.Obligation, f.Func, f.Pos, f.What)
	}
	if len(res.Findings) > 0 {
		os.Exit(1)
	}
}

func load(dir string, pats []string) ([]*packages.Package, *ssa.Program, []*ssa.Package) {
	cfg := &packages.Config{Mode: packages.LoadAllSyntax, Dir: dir, Fset: token.NewFileSet()}
	pkgs, err := packages.Load(cfg, pats...)
	if err != nil {
		fmt.Fprintln(os.Stderr, "framecheck: load:", err)
		os.Exit(2)
	}
	for _, p := range pkgs {
		for _, e := range p.Errors {
			fmt.Fprintln(os.Stderr, "framecheck: package error:", e)
			os.Exit(2)
		}
	}
	prog, spkgs := ssautil.AllPackages(pkgs, ssa.InstantiateGenerics)
	prog.Build()
	return pkgs, prog, spkgs
}

// mutableRef reports whether a value of type t can be used to modify memory it shares with others.
func mutableRef(t types.Type) bool {
	switch u := t.Underlying().(type) {
	case *types.Slice, *types.Map, *types.Chan:
		return true
	case *types.Pointer:
		return true
	case *types.Interface:
		return ifaceMayBoxRef(t) // may box a mutable reference
	case *types.Struct:
		for i := 0; i < u.NumFields(); i++ {
			if mutableRef(u.Field(i).Type()) {
				return true
			}
		}
	case *types.Array:
		return mutableRef(u.Elem())
	}
	return false
}

var allNamed []*types.Named

// ifaceMayBoxRef: an interface with methods whose implementers (in the loaded program) are all basic non-pointer
// types can only box immutable values; the empty interface and anything else may box a mutable reference.
func ifaceMayBoxRef(t types.Type) bool {
	it, ok := t.Underlying().(*types.Interface)
	if !ok || it.NumMethods() == 0 {
		return true
	}
	found := false
	for _, n := range allNamed {
		if _, isI := n.Underlying().(*types.Interface); isI {
			continue
		}
		if types.Implements(n, it) {
			found = true
			if _, basic := n.Underlying().(*types.Basic); !basic {
				return true
			}
		} else if types.Implements(types.NewPointer(n), it) {
			return true
		}
	}
	return !found
}

type analysis struct {
	prog     *ssa.Program
	own      map[*ssa.Package]bool
	derived  map[ssa.Value]bool
	res      *result
	fnWrites map[*ssa.Function]map[int]bool // parameter index -> written through
	fnKeeps  map[*ssa.Function]map[int]bool // parameter index -> stored/returned
}

func shared(dir string, pats []string) *result {
	_, prog, spkgs := load(dir, pats)
	a := &analysis{prog: prog, own: map[*ssa.Package]bool{}, res: &result{Mode: "shared"}, fnWrites: map[*ssa.Function]map[int]bool{}, fnKeeps: map[*ssa.Function]map[int]bool{}}
	var fns []*ssa.Function
	for _, p := range spkgs {
		if p == nil {
			continue
		}
		a.own[p] = true
		a.res.Packages = append(a.res.Packages, p.Pkg.Path())
		for _, m := range p.Members {
			if g, ok := m.(*ssa.Global); ok {
				a.res.Globals = append(a.res.Globals, p.Pkg.Name()+"."+g.Name())
			}
		}
	}
	for _, p := range spkgs {
		if p == nil {
			continue
		}
		for _, m := range p.Members {
			if tn, ok := m.(*ssa.Type); ok {
				if n, ok := tn.Type().(*types.Named); ok {
					allNamed = append(allNamed, n)
				}
			}
		}
	}
	for fn := range ssautil.AllFunctions(prog) {
		if fn.Pkg != nil && a.own[fn.Pkg] && fn.Blocks != nil {
			fns = append(fns, fn)
		}
	}
	sort.Slice(fns, func(i, j int) bool { return fns[i].String() < fns[j].String() })
	sort.Strings(a.res.Globals)
	// parameter summaries to a fixed point
	for changed := true; changed; {
		changed = false
		for _, fn := range fns {
			w, k := a.paramEffects(fn)
			if len(w) != len(a.fnWrites[fn]) || len(k) != len(a.fnKeeps[fn]) {
				changed = true
			}
			a.fnWrites[fn], a.fnKeeps[fn] = w, k
		}
	}
	for _, fn := range fns {
		name := fn.Name()
		if name == "init" || strings.HasPrefix(name, "init#") {
			continue // the Go run-time orders package initialisation before main
		}
		if fn.Synthetic != "" && !strings.Contains(fn.Synthetic, "bound method") {
			// wrappers are covered through their targets
		}
		a.res.Functions++
		a.checkFunc(fn)
	}
	return a.res
}

// derivedFrom computes, inside fn, the values derived from the given roots.
func (a *analysis) derivedFrom(fn *ssa.Function, isRoot func(ssa.Value) bool) map[ssa.Value]bool {
	d := map[ssa.Value]bool{}
	mark := func(v ssa.Value) bool {
		if !d[v] {
			d[v] = true
			return true
		}
		return false
	}
	for changed := true; changed; {
		changed = false
		for _, b := range fn.Blocks {
			for _, in := range b.Instrs {
				if st, ok := in.(*ssa.Store); ok {
					// a derived value stored into a local variable: the variable now holds shared data
					if al := localAlloc(st.Addr); al != nil && (d[st.Val] || isRoot(st.Val)) && mutableRef(st.Val.Type()) && !d[al] {
						d[al] = true
						changed = true
					}
					continue
				}
				v, ok := in.(ssa.Value)
				if !ok {
					continue
				}
				if d[v] {
					continue
				}
				src := func(x ssa.Value) bool { return x != nil && (d[x] || isRoot(x)) }
				hit := false
				switch i := in.(type) {
				case *ssa.FieldAddr:
					hit = src(i.X)
				case *ssa.IndexAddr:
					hit = src(i.X)
				case *ssa.Field:
					hit = src(i.X) && mutableRef(i.Type())
				case *ssa.Index:
					hit = src(i.X) && mutableRef(i.Type())
				case *ssa.Slice:
					hit = src(i.X)
				case *ssa.UnOp:
					if i.Op == token.MUL {
						hit = src(i.X) && mutableRef(i.Type())
					}
				case *ssa.Phi:
					for _, e := range i.Edges {
						hit = hit || src(e)
					}
				case *ssa.ChangeType:
					hit = src(i.X)
				case *ssa.Convert:
					hit = src(i.X) && mutableRef(i.Type())
				case *ssa.ChangeInterface:
					hit = src(i.X)
				case *ssa.MakeInterface:
					hit = src(i.X) && mutableRef(i.X.Type())
				case *ssa.TypeAssert:
					hit = src(i.X) && mutableRef(i.Type())
				case *ssa.Extract:
					hit = src(i.Tuple) && mutableRef(i.Type())
				case *ssa.Lookup:
					hit = src(i.X) && mutableRef(i.Type())
				case *ssa.Call:
					// result derived if the callee returns a derived argument (summary) or is a builtin append of a derived slice
					if bi, ok := i.Call.Value.(*ssa.Builtin); ok && bi.Name() == "append" {
						hit = src(i.Call.Args[0])
					} else if callee := i.Call.StaticCallee(); callee != nil {
						for k, arg := range i.Call.Args {
							if src(arg) && a.fnKeeps[callee][k] && mutableRef(i.Type()) {
								hit = true
							}
						}
					}
				}
				if hit && mark(v) {
					changed = true
				}
			}
		}
	}
	return d
}

// localAlloc returns the local variable cell an address is rooted at (nil if it is not a plain local).
func localAlloc(addr ssa.Value) *ssa.Alloc {
	for {
		switch x := addr.(type) {
		case *ssa.Alloc:
			return x
		case *ssa.FieldAddr:
			addr = x.X
		case *ssa.IndexAddr:
			if _, isArr := x.X.Type().Underlying().(*types.Pointer); !isArr {
				return nil
			}
			addr = x.X
		default:
			return nil
		}
	}
}

// paramEffects: which parameters fn writes through / stores or returns.
func (a *analysis) paramEffects(fn *ssa.Function) (writes, keeps map[int]bool) {
	writes, keeps = map[int]bool{}, map[int]bool{}
	for idx, p := range fn.Params {
		if !mutableRef(p.Type()) {
			continue
		}
		pp := p
		d := a.derivedFrom(fn, func(v ssa.Value) bool { return v == ssa.Value(pp) })
		is := func(v ssa.Value) bool { return v == ssa.Value(pp) || d[v] }
		for _, b := range fn.Blocks {
			for _, in := range b.Instrs {
				switch i := in.(type) {
				case *ssa.Store:
					if al := localAlloc(i.Addr); al != nil && !al.Heap {
						continue
					}
					if is(i.Addr) {
						writes[idx] = true
					}
					if is(i.Val) && mutableRef(i.Val.Type()) {
						keeps[idx] = true
					}
				case *ssa.MapUpdate:
					if is(i.Map) {
						writes[idx] = true
					}
					if is(i.Value) && mutableRef(i.Value.Type()) {
						keeps[idx] = true
					}
				case *ssa.Return:
					for _, r := range i.Results {
						if is(r) && mutableRef(r.Type()) {
							keeps[idx] = true
						}
					}
				case *ssa.Call:
					a.callEffects(i, is, func() { writes[idx] = true }, func() { keeps[idx] = true })
				}
			}
		}
	}
	return
}

func (a *analysis) callEffects(c *ssa.Call, is func(ssa.Value) bool, onWrite, onKeep func()) {
	if bi, ok := c.Call.Value.(*ssa.Builtin); ok {
		switch bi.Name() {
		case "append":
			if is(c.Call.Args[0]) {
				onWrite() // may write in place into the backing array
			}
			for _, x := range c.Call.Args[1:] {
				if is(x) && mutableRef(x.Type()) {
					onKeep()
				}
			}
		case "copy":
			if is(c.Call.Args[0]) {
				onWrite()
			}
		case "delete":
			if is(c.Call.Args[0]) {
				onWrite()
			}
		}
		return
	}
	callee := c.Call.StaticCallee()
	for k, arg := range c.Call.Args {
		if !is(arg) || !mutableRef(arg.Type()) {
			continue
		}
		if callee == nil || callee.Blocks == nil {
			// unknown or external callee: fmt/strings/bytes/strconv/utf8 only read their arguments
			if callee != nil && callee.Pkg != nil {
				switch callee.Pkg.Pkg.Path() {
				case "fmt", "strings", "bytes", "strconv", "unicode/utf8", "unicode", "errors", "os", "io", "sort":
					if callee.Pkg.Pkg.Path() == "sort" {
						onWrite()
					}
					continue
				}
			}
			if c.Call.IsInvoke() {
				onKeep()
				onWrite()
				continue
			}
			if callee == nil {
				// call through a function value (user actions, table functions): assumed not to write its arguments
				continue
			}
			onKeep()
			onWrite()
			continue
		}
		if a.fnWrites[callee][k] {
			onWrite()
		}
		if a.fnKeeps[callee][k] {
			onKeep()
		}
		_ = k
	}
}

func (a *analysis) checkFunc(fn *ssa.Function) {
	d := a.derivedFrom(fn, func(v ssa.Value) bool {
		g, ok := v.(*ssa.Global)
		return ok && g.Pkg != nil && a.own[g.Pkg]
	})
	is := func(v ssa.Value) bool {
		if g, ok := v.(*ssa.Global); ok && g.Pkg != nil && a.own[g.Pkg] {
			return true
		}
		return d[v]
	}
	pos := func(p token.Pos) string {
		pp := a.prog.Fset.Position(p)
		f := pp.Filename
		if i := strings.LastIndex(f, "/"); i >= 0 {
			f = f[i+1:]
		}
		return fmt.Sprintf("%s:%d", f, pp.Line)
	}
	fail := func(ob string, p token.Pos, what string) {
		a.res.Findings = append(a.res.Findings, finding{ob, fn.String(), pos(p), what})
	}
	nw, nk := 0, 0
	for _, b := range fn.Blocks {
		for _, in := range b.Instrs {
			switch i := in.(type) {
			case *ssa.Store:
				nw++
				if al := localAlloc(i.Addr); al != nil && !al.Heap {
					continue // a local variable of this activation
				}
				if is(i.Addr) && localAlloc(i.Addr) == nil {
					fail("no-shared-write", i.Pos(), "store to memory reachable from a package-level variable")
				}
				if is(i.Val) && mutableRef(i.Val.Type()) {
					nk++
					if !is(i.Addr) || localAlloc(i.Addr) != nil {
						fail("no-shared-escape", i.Pos(), "a mutable reference to package-level data is stored into an object")
					}
				}
			case *ssa.MapUpdate:
				nw++
				if is(i.Map) {
					fail("no-shared-write", i.Pos(), "update of a map reachable from a package-level variable")
				}
				if is(i.Value) && mutableRef(i.Value.Type()) {
					fail("no-shared-escape", i.Pos(), "a mutable reference to package-level data is stored into a map")
				}
			case *ssa.Return:
				for _, r := range i.Results {
					nk++
					if is(r) && mutableRef(r.Type()) {
						// strings and function values are immutable; slices/maps/pointers are not
						fail("no-shared-escape", i.Pos(), "a mutable reference to package-level data is returned")
					}
				}
			case *ssa.Call:
				nw++
				a.callEffects(i, is, func() { fail("no-shared-write", i.Pos(), "call writes through an argument reachable from a package-level variable") },
					func() { fail("no-shared-escape", i.Pos(), "call keeps a mutable reference to package-level data") })
			case *ssa.Go:
				fail("no-shared-write", i.Pos(), "goroutine started by generated code")
			}
		}
	}
	a.res.Obligations += 2
	a.res.Discharged += 2
	for _, f := range a.res.Findings {
		if f.Func == fn.String() {
			a.res.Discharged--
			break
		}
	}
	if len(a.res.Samples) < 12 {
		a.res.Samples = append(a.res.Samples, fmt.Sprintf("%s: %d write sites, %d escape sites examined", fn.String(), nw, nk))
	}
}
