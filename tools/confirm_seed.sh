#!/bin/bash
# confirm_seed.sh <seed-dir> : confirm a seeded change in a scratch worktree of /repo:
#  - applies cleanly, builds, the pinned suite passes as at baseline
#  - the demonstration passes on the pristine tree and fails with the change
set -u
export GOFLAGS=-mod=mod GOPROXY=off
d=$(realpath "$1"); name=$(basename "$d")
wt=$(mktemp -d /tmp/confirm-XXXXXX); rmdir "$wt"
git -C /repo worktree add -q --detach "$wt" HEAD || exit 2
trap 'git -C /repo worktree remove --force "$wt" >/dev/null 2>&1; rm -rf "$wt"' EXIT
res="$name:"
( bash "$d/run_demo.sh" "$wt" >/tmp/confirm-$name-pristine.log 2>&1 ); rc0=$?
( cd "$wt" && git checkout -q -- . && git clean -fdq )
( cd "$wt" && git apply "$d/patch.diff" ) || { echo "$res patch does not apply"; exit 1; }
( cd "$wt" && go build ./... ) >/tmp/confirm-$name-build.log 2>&1 || { echo "$res build fails"; exit 1; }
( cd "$wt" && go test -vet=off -count=1 ./... 2>&1 | grep -v "^ok\|no test files" ) > /tmp/confirm-$name-suite.log
fails=$(grep -c "^FAIL\|^--- FAIL" /tmp/confirm-$name-suite.log)
onlyt2=$(grep "^FAIL" /tmp/confirm-$name-suite.log | grep -v "internal/test/t2" | grep -v "^FAIL$" | wc -l)
( bash "$d/run_demo.sh" "$wt" >/tmp/confirm-$name-patched.log 2>&1 ); rc1=$?
echo "$res demo pristine rc=$rc0 patched rc=$rc1 suite-unexpected-fails=$onlyt2"
[ $rc0 -eq 0 ] && [ $rc1 -ne 0 ] && [ $onlyt2 -eq 0 ]
