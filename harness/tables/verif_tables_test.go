package parser

// Dumps the parser tables as the run-time sees them (after package initialisation, i.e. after the -zip decoders
// ran) so that the plain and the -zip expansion of one grammar can be compared cell by cell (C12).

import (
	"encoding/json"
	"fmt"
	"os"
	"testing"
)

func TestVerifDumpTables(t *testing.T) {
	out := os.Getenv("VERIF_OUT")
	if out == "" {
		t.Skip("VERIF_OUT not set")
	}
	type row struct {
		CanRecover bool     `json:"canRecover"`
		Actions    []string `json:"actions"`
	}
	var acts []row
	for _, r := range actionTab {
		rr := row{CanRecover: r.canRecover}
		for _, a := range r.actions {
			switch x := a.(type) {
			case nil:
				rr.Actions = append(rr.Actions, "nil")
			case accept:
				rr.Actions = append(rr.Actions, "accept")
			case shift:
				rr.Actions = append(rr.Actions, fmt.Sprintf("shift %d", int(x)))
			case reduce:
				rr.Actions = append(rr.Actions, fmt.Sprintf("reduce %d", int(x)))
			}
		}
		acts = append(acts, rr)
	}
	var gotos [][]int
	for _, g := range gotoTab {
		gotos = append(gotos, append([]int(nil), g[:]...))
	}
	var prods []map[string]interface{}
	for _, p := range productionsTable {
		prods = append(prods, map[string]interface{}{"String": p.String, "Id": p.Id, "NTType": p.NTType, "Index": p.Index, "NumSymbols": p.NumSymbols})
	}
	b, _ := json.Marshal(map[string]interface{}{"actionTab": acts, "gotoTab": gotos, "productionsTable": prods, "numStates": numStates, "numSymbols": numSymbols, "cases": len(acts)})
	os.WriteFile(out, b, 0o644)
}
