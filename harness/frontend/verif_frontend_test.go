package parser

// Bounded stand-in for C14 (and the parser half of C15), injected into internal/frontend/parser with
// `go test -overlay`; never written into /repo.
//
// For every grammar of the corpus: scan it with the real scanner, then feed gocc's own parser
//   - the unmodified token sequence (must be accepted), and
//   - every sequence obtained by deleting one token, duplicating one token, or substituting one token by a token
//     of another type (the property's mutation classes).
// Oracle (independent of the language): whenever Parse returns a nil error, EVERY scanned token must have been
// consumed by exactly one reduction, no attribute of a reduction may be an error attribute, and nothing may have
// been scanned beyond the first end-of-input token. An accepted run with a skipped token or a phantom error
// symbol is "silently repaired" input. Together with the validated tables (C15) an accepted run without skips
// is a sentence of the documented grammar.
// Also checked: no panic, termination.

import (
	"encoding/json"
	"fmt"
	"os"
	"strings"
	"testing"

	errs "github.com/goccmack/gocc/internal/frontend/errors"
	"github.com/goccmack/gocc/internal/frontend/scanner"
	"github.com/goccmack/gocc/internal/frontend/token"
)

type vfScanner struct {
	toks []*token.Token
	k    int
}

func (s *vfScanner) Scan() (*token.Token, token.Position) {
	s.k++
	if s.k-1 < len(s.toks) {
		return s.toks[s.k-1], token.Position{Offset: s.k, Line: 1, Column: s.k}
	}
	if s.k > len(s.toks)+8 {
		panic("verif: scanner called far beyond end of input")
	}
	return &token.Token{Type: token.EOF}, token.Position{}
}

var vfConsumed int
var vfPhantom int

func vfInstall() ProdTab {
	tab := make(ProdTab, len(ProductionsTable))
	copy(tab, ProductionsTable)
	for i := range tab {
		tab[i].ReduceFunc = func(X []Attrib) (Attrib, error) {
			for _, x := range X {
				switch x.(type) {
				case *token.Token:
					vfConsumed++
				case *errs.Error:
					vfPhantom++
				}
			}
			return nil, nil
		}
	}
	return tab
}

func vfRun(toks []*token.Token) (msg string) {
	defer func() {
		if r := recover(); r != nil {
			msg = fmt.Sprint("panic: ", r)
		}
	}()
	vfConsumed, vfPhantom = 0, 0
	sc := &vfScanner{toks: toks}
	p := NewParser(ActionTable, GotoTable, vfInstall(), token.FRONTENDTokens)
	_, err := p.Parse(sc)
	if err != nil {
		return ""
	}
	if vfPhantom > 0 {
		return fmt.Sprintf("accepted with %d error attribute(s) on the stack (a phantom error symbol was shifted)", vfPhantom)
	}
	if vfConsumed != len(toks) {
		return fmt.Sprintf("accepted although only %d of %d tokens were consumed (%d skipped)", vfConsumed, len(toks), len(toks)-vfConsumed)
	}
	if sc.k > len(toks)+1 {
		return fmt.Sprintf("scanned %d tokens beyond end of input", sc.k-len(toks)-1)
	}
	return ""
}

func vfScanFile(path string) ([]*token.Token, int, error) {
	src, err := os.ReadFile(path)
	if err != nil {
		return nil, 0, err
	}
	s := &scanner.Scanner{}
	s.Init(src, token.FRONTENDTokens)
	var toks []*token.Token
	for {
		t, _ := s.Scan()
		if t.Type == token.EOF {
			break
		}
		toks = append(toks, t)
		if len(toks) > 100000 {
			break
		}
	}
	return toks, s.ErrorCount, nil
}

func TestVerifFrontend(t *testing.T) {
	mode := os.Getenv("VERIF_FRONTEND")
	out := os.Getenv("VERIF_OUT")
	if mode == "" {
		t.Skip("VERIF_FRONTEND not set")
	}
	var fails []string
	cases := 0
	note := func(file, kind string, pos int, typ int, m string) {
		if m != "" && len(fails) < 40 {
			b, _ := json.Marshal(map[string]interface{}{"file": file, "mutation": kind, "at": pos, "type": typ})
			fails = append(fails, string(b)+" "+m)
		}
	}
	types := []token.Type{}
	for i := 1; i <= 21; i++ {
		types = append(types, token.Type(i))
	}
	apply := func(toks []*token.Token, kind string, pos int, typ int) []*token.Token {
		var m []*token.Token
		switch kind {
		case "none":
			m = toks
		case "delete":
			m = append(append(m, toks[:pos]...), toks[pos+1:]...)
		case "duplicate":
			m = append(append(append(m, toks[:pos+1]...), toks[pos]), toks[pos+1:]...)
		case "substitute":
			m = append(m, toks...)
			m[pos] = &token.Token{Type: token.Type(typ), Lit: []byte("x")}
		case "insert":
			m = append(append(append(m, toks[:pos]...), &token.Token{Type: token.Type(typ), Lit: []byte("x")}), toks[pos:]...)
		}
		return m
	}
	if strings.HasPrefix(mode, "replay:") {
		var c struct {
			File     string `json:"file"`
			Mutation string `json:"mutation"`
			At       int    `json:"at"`
			Type     int    `json:"type"`
		}
		if err := json.Unmarshal([]byte(mode[len("replay:"):]), &c); err != nil {
			t.Fatal(err)
		}
		toks, _, err := vfScanFile(c.File)
		if err != nil {
			t.Fatal(err)
		}
		cases = 1
		note(c.File, c.Mutation, c.At, c.Type, vfRun(apply(toks, c.Mutation, c.At, c.Type)))
	} else {
		stride := 1
		fmt.Sscanf(mode, "files:%d:", &stride)
		list := mode[strings.Index(mode[6:], ":")+7:]
		for _, file := range strings.Split(list, ",") {
			toks, nerr, err := vfScanFile(file)
			if err != nil || nerr > 0 {
				continue
			}
			cases++
			if m := vfRun(toks); m != "" {
				note(file, "none", 0, 0, "well-formed grammar: "+m)
			}
			if vfConsumed != len(toks) {
				note(file, "none", 0, 0, "well-formed grammar was not accepted with all tokens consumed")
			}
			// reuse of one parser object (C15/C16 for the front end): after a rejected input the same parser must
			// accept the well-formed grammar exactly as a fresh one does
			cases++
			func() {
				defer func() {
					if r := recover(); r != nil {
						note(file, "reuse", 0, 0, fmt.Sprint("panic on reuse: ", r))
					}
				}()
				p := NewParser(ActionTable, GotoTable, vfInstall(), token.FRONTENDTokens)
				p.Parse(&vfScanner{toks: toks[:len(toks)/2]})
				vfConsumed, vfPhantom = 0, 0
				if _, err := p.Parse(&vfScanner{toks: toks}); err != nil || vfConsumed != len(toks) {
					note(file, "reuse", 0, 0, fmt.Sprintf("a parser that rejected a prefix no longer accepts the well-formed grammar (err=%v, consumed %d of %d)", err, vfConsumed, len(toks)))
				}
			}()
			for pos := 0; pos < len(toks); pos += stride {
				cases++
				note(file, "delete", pos, 0, vfRun(apply(toks, "delete", pos, 0)))
				cases++
				note(file, "duplicate", pos, 0, vfRun(apply(toks, "duplicate", pos, 0)))
				for _, ty := range types {
					if ty != toks[pos].Type {
						cases++
						note(file, "substitute", pos, int(ty), vfRun(apply(toks, "substitute", pos, int(ty))))
					}
					cases++
					note(file, "insert", pos, int(ty), vfRun(apply(toks, "insert", pos, int(ty))))
				}
			}
		}
	}
	b, _ := json.Marshal(map[string]interface{}{"cases": cases, "fails": fails})
	if out != "" {
		os.WriteFile(out, b, 0o644)
	}
	fmt.Println("VERIF-RESULT", string(b))
}
