package token

// Bounded stand-in for the $-rewriting of action text (C03): SDTVal against an independent rewriting written from
// the property text ($i -> X[i], $Ti -> X[i].(*token.Token), $Context -> C, i = the longest run of digits), on all
// action texts of up to N items over a small alphabet. Injected with `go test -overlay`.

import (
	"encoding/json"
	"fmt"
	"os"
	"strings"
	"testing"
)

func isDigit(c byte) bool { return '0' <= c && c <= '9' }

func specSDT(s string) string {
	var b strings.Builder
	for i := 0; i < len(s); {
		if s[i] != '$' {
			b.WriteByte(s[i])
			i++
			continue
		}
		j := i + 1
		switch {
		case j < len(s) && isDigit(s[j]):
			k := j
			for k < len(s) && isDigit(s[k]) {
				k++
			}
			b.WriteString("X[" + s[j:k] + "]")
			i = k
		case j+1 < len(s) && s[j] == 'T' && isDigit(s[j+1]):
			k := j + 1
			for k < len(s) && isDigit(s[k]) {
				k++
			}
			b.WriteString("X[" + s[j+1:k] + "].(*token.Token)")
			i = k
		case strings.HasPrefix(s[j:], "Context"):
			b.WriteString("C")
			i = j + len("Context")
		default:
			b.WriteByte('$')
			i++
		}
	}
	return strings.TrimSpace(b.String())
}

func TestVerifSDT(t *testing.T) {
	mode := os.Getenv("VERIF_SDT")
	out := os.Getenv("VERIF_OUT")
	if mode == "" {
		t.Skip("VERIF_SDT not set")
	}
	var fails []string
	cases := 0
	check := func(s string) {
		cases++
		tok := &Token{Lit: []byte("<<" + s + ">>")}
		got, want := tok.SDTVal(), specSDT(s)
		if got != want && len(fails) < 30 {
			b, _ := json.Marshal(map[string]string{"action": s})
			fails = append(fails, string(b)+fmt.Sprintf(" SDTVal gives %q, the property's rewriting gives %q", got, want))
		}
	}
	if strings.HasPrefix(mode, "replay:") {
		var c struct {
			Action string `json:"action"`
		}
		json.Unmarshal([]byte(mode[len("replay:"):]), &c)
		check(c.Action)
	} else {
		var n int
		fmt.Sscanf(mode, "enum:%d", &n)
		items := []string{"$", "0", "1", "T", "C", "x", "Context", " ", "9", ".Lit"}
		var rec func(cur string, k int)
		rec = func(cur string, k int) {
			check(cur)
			if k == n {
				return
			}
			for _, it := range items {
				rec(cur+it, k+1)
			}
		}
		rec("", 0)
		for _, s := range []string{" $0, nil ", "$10 + $1", "f($T12, $Context, $3)", "$T0.Lit", "$$1", "$Contextual", "$T", "$Tx", "a$1b$T2c", "[]interface{}{$0, $11, $T10}"} {
			check(s)
		}
	}
	b, _ := json.Marshal(map[string]interface{}{"cases": cases, "fails": fails})
	if out != "" {
		os.WriteFile(out, b, 0o644)
	}
	fmt.Println("VERIF-RESULT", string(b))
}
