package items

// Bounded stand-in / replay oracle for C18 (injected with `go test -overlay`; never written into /repo).
// It evaluates the C18 contract of AddRange on the real code for explicit interval sequences.

import (
	"encoding/json"
	"fmt"
	"os"
	"strconv"
	"strings"
	"testing"
)

type verifC18Case struct {
	Intervals [][2]int32 `json:"intervals"`
}

// verifC18Check runs one sequence through the real DisjunctRangeSet and returns "" or a description of the violated clause.
func verifC18Check(seq [][2]int32) (msg string) {
	defer func() {
		if r := recover(); r != nil {
			msg = fmt.Sprintf("panic: %v", r)
		}
	}()
	set := NewDisjunctRangeSet()
	in := func(r int32, upto int) bool {
		for _, iv := range seq[:upto] {
			if iv[0] <= r && r <= iv[1] {
				return true
			}
		}
		return false
	}
	lo, hi := int32(0), int32(0)
	for _, iv := range seq {
		if iv[1]+2 > hi {
			hi = iv[1] + 2
		}
		if iv[0]+2 > hi {
			hi = iv[0] + 2
		}
	}
	for n, iv := range seq {
		before := append([]CharRange(nil), set.set...)
		set.AddRange(iv[0], iv[1])
		cls := set.set
		for k, c := range cls {
			if c.From > c.To {
				return fmt.Sprintf("after step %d: class %d empty %v", n, k, cls)
			}
			if k > 0 && cls[k-1].To >= c.From {
				return fmt.Sprintf("after step %d: classes %d,%d not sorted/disjoint %v", n, k-1, k, cls)
			}
		}
		if iv[0] > iv[1] {
			if len(before) != len(cls) {
				return fmt.Sprintf("after step %d: empty interval changed the set", n)
			}
		}
		for r := lo; r <= hi; r++ {
			inCls := false
			for _, c := range cls {
				if c.From <= r && r <= c.To {
					inCls = true
				}
			}
			if inCls != in(r, n+1) {
				return fmt.Sprintf("after step %d: rune %d: in classes=%v, in added ranges=%v; classes %v", n, r, inCls, in(r, n+1), cls)
			}
		}
		// every added range so far is exactly a union of classes: each class inside or disjoint
		for _, c := range cls {
			for m, a := range seq[:n+1] {
				if a[0] > a[1] {
					continue
				}
				inside := a[0] <= c.From && c.To <= a[1]
				disjoint := c.To < a[0] || a[1] < c.From
				if !inside && !disjoint {
					return fmt.Sprintf("after step %d: class %v straddles added range %d %v; classes %v", n, c, m, a, cls)
				}
			}
		}
		if set.MatchAny {
			return "MatchAny changed"
		}
	}
	return ""
}

func TestVerifC18(t *testing.T) {
	mode := os.Getenv("VERIF_C18")
	out := os.Getenv("VERIF_OUT")
	var fails []string
	cases := 0
	switch {
	case strings.HasPrefix(mode, "enum:"):
		// enum:<maxIntervals>:<maxRune>
		p := strings.Split(mode, ":")
		maxN, _ := strconv.Atoi(p[1])
		maxR, _ := strconv.Atoi(p[2])
		var ivs [][2]int32
		for a := 0; a <= maxR; a++ {
			for b := a; b <= maxR; b++ {
				ivs = append(ivs, [2]int32{int32(a), int32(b)})
			}
		}
		ivs = append(ivs, [2]int32{3, 2}) // one empty interval
		var rec func(seq [][2]int32)
		rec = func(seq [][2]int32) {
			if len(seq) > 0 {
				cases++
				if m := verifC18Check(seq); m != "" && len(fails) < 20 {
					b, _ := json.Marshal(verifC18Case{seq})
					fails = append(fails, string(b)+" "+m)
				}
			}
			if len(seq) == maxN {
				return
			}
			for _, iv := range ivs {
				rec(append(append([][2]int32(nil), seq...), iv))
			}
		}
		rec(nil)
		// long prefixes: n disjoint classes, then every range over a window that covers two neighbouring classes and the
		// gaps around them (every overlap pattern at every class count up to maxLong: the counts at which the class
		// slice is full and grows are among them)
		maxLong := 12 * maxN
		for n := 0; n <= maxLong; n++ {
			var prefix [][2]int32
			for k := 0; k < n; k++ {
				prefix = append(prefix, [2]int32{int32(4*k + 1), int32(4*k + 2)})
			}
			j := n / 2
			for a := 4*j - 1; a <= 4*j+7; a++ {
				for b := a; b <= 4*j+7; b++ {
					if a < 0 {
						continue
					}
					seq := append(append([][2]int32(nil), prefix...), [2]int32{int32(a), int32(b)})
					cases++
					if m := verifC18Check(seq); m != "" && len(fails) < 20 {
						bs, _ := json.Marshal(verifC18Case{seq})
						fails = append(fails, string(bs)+" "+m)
					}
				}
			}
		}
	case strings.HasPrefix(mode, "replay:"):
		var c verifC18Case
		if err := json.Unmarshal([]byte(mode[len("replay:"):]), &c); err != nil {
			t.Fatal(err)
		}
		cases = 1
		if m := verifC18Check(c.Intervals); m != "" {
			fails = append(fails, mode[len("replay:"):]+" "+m)
		}
	default:
		t.Skip("VERIF_C18 not set")
	}
	res := map[string]interface{}{"cases": cases, "fails": fails}
	b, _ := json.Marshal(res)
	if out != "" {
		os.WriteFile(out, b, 0o644)
	}
	fmt.Println("VERIF-RESULT", string(b))
}
