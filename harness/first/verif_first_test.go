package first

// Bounded stand-in for the FirstS / First contract (C02, C04, C06): the post-condition of the contract evaluated on
// the real code for all FIRST tables over three nonterminals and all symbol strings up to length 3. Injected with
// `go test -overlay`.

import (
	"encoding/json"
	"fmt"
	"os"
	"strings"
	"testing"

	"github.com/goccmack/gocc/internal/ast"
	"github.com/goccmack/gocc/internal/frontend/parser"
	"github.com/goccmack/gocc/internal/frontend/scanner"
	"github.com/goccmack/gocc/internal/frontend/token"
	"github.com/goccmack/gocc/internal/parser/symbols"
)

func vfSymbols(t *testing.T) *symbols.Symbols {
	src := []byte("a : 'a' ; b : 'b' ;\nA : a | B ; B : b | C ; C : a b | empty ;\n")
	s := &scanner.Scanner{}
	s.Init(src, token.FRONTENDTokens)
	p := parser.NewParser(parser.ActionTable, parser.GotoTable, parser.ProductionsTable, token.FRONTENDTokens)
	g, err := p.Parse(s)
	if err != nil {
		t.Fatal(err)
	}
	return symbols.NewSymbols(g.(*ast.Grammar))
}

func TestVerifFirstS(t *testing.T) {
	mode := os.Getenv("VERIF_FIRST")
	out := os.Getenv("VERIF_OUT")
	if mode == "" {
		t.Skip("VERIF_FIRST not set")
	}
	syms := vfSymbols(t)
	nts := []string{"A", "B", "C"}
	elems := []string{"a", "b", "empty"}
	all := []string{"a", "b", "A", "B", "C"}
	var fails []string
	cases := 0
	inFirst := func(fs *FirstSets, sym, k string) bool {
		if syms.IsTerminal(sym) {
			return k == sym
		}
		return fs.firstSets[sym][k]
	}
	check := func(masks [3]int, str []string) {
		cases++
		fs := &FirstSets{firstSets: map[string]SymbolSet{}, symbols: syms}
		for i, nt := range nts {
			if masks[i] == 8 {
				continue // no recorded set at all
			}
			set := SymbolSet{}
			for j, e := range elems {
				if masks[i]&(1<<j) != 0 {
					set[e] = true
				}
			}
			fs.firstSets[nt] = set
		}
		got := FirstS(fs, append([]string(nil), str...))
		want := SymbolSet{}
		allNullable := len(str) > 0
		for i, s := range str {
			prefixNullable := true
			for j := 0; j < i; j++ {
				if !inFirst(fs, str[j], "empty") {
					prefixNullable = false
				}
			}
			if prefixNullable {
				for _, k := range append(append([]string{}, elems...), all...) {
					if k != "empty" && inFirst(fs, s, k) {
						want[k] = true
					}
				}
			}
			if !inFirst(fs, s, "empty") {
				allNullable = false
			}
		}
		if allNullable {
			want["empty"] = true
		}
		if !got.Equal(want) && len(fails) < 30 {
			b, _ := json.Marshal(map[string]interface{}{"masks": masks, "symbols": str})
			fails = append(fails, string(b)+fmt.Sprintf(" FirstS gives %v, the contract demands %v", got, want))
		}
	}
	if strings.HasPrefix(mode, "replay:") {
		var c struct {
			Masks   [3]int   `json:"masks"`
			Symbols []string `json:"symbols"`
		}
		json.Unmarshal([]byte(mode[len("replay:"):]), &c)
		check(c.Masks, c.Symbols)
	} else {
		var strs [][]string
		var rec func(cur []string)
		rec = func(cur []string) {
			strs = append(strs, append([]string(nil), cur...))
			if len(cur) == 3 {
				return
			}
			for _, s := range all {
				rec(append(cur, s))
			}
		}
		rec(nil)
		for m0 := 0; m0 <= 8; m0++ {
			for m1 := 0; m1 <= 8; m1++ {
				for m2 := 0; m2 <= 8; m2++ {
					for _, s := range strs {
						check([3]int{m0, m1, m2}, s)
					}
				}
			}
		}
	}
	b, _ := json.Marshal(map[string]interface{}{"cases": cases, "fails": fails})
	if out != "" {
		os.WriteFile(out, b, 0o644)
	}
	fmt.Println("VERIF-RESULT", string(b))
}
