package parser

// Bounded stand-in / replay oracle for the run-time parser contracts (C02.R, C03, C06, C07, C16).
// Copied into the parser package of an expanded carrier (a scratch module), never into /repo.
// The oracle is an independent interpreter of the LR machine M(T) of DESIGN 3.4/3.5, written from the property
// text: it reads only the emitted tables. The real Parse must agree with it on result, error, expected list,
// action calls (order, arguments by identity, Context) and tokens consumed, for every enumerated token string.

import (
	"encoding/json"
	"fmt"
	"os"
	"reflect"
	"strings"
	"testing"

	parseError "gen/errors"
	"gen/token"
)

type vNode struct {
	Prod int
	Kids []Attrib
}

type vCall struct {
	Prod int
	Args []Attrib
	Ctx  interface{}
}

type vScanner struct {
	toks []*token.Token
	k    int
	eof  *token.Token
}

func (s *vScanner) Scan() *token.Token {
	s.k++
	if s.k-1 < len(s.toks) {
		return s.toks[s.k-1]
	}
	if s.k > len(s.toks)+64 {
		panic("verif: scanner called far beyond end of input (loop?)")
	}
	return s.eof
}

type vOutcome struct {
	Res      Attrib
	ErrNil   bool
	ErrTok   *token.Token
	Expected []string
	ActErr   bool
	Calls    []vCall
	errObj   *parseError.Error
	Scans    int
	Panic    string
}

var vTrace []vCall
var vFailAt = -1 // index of the action call that returns an error (-1: none)

func vInstall() {
	for i := range productionsTable {
		idx := i
		productionsTable[i].ReduceFunc = func(X []Attrib, C interface{}) (Attrib, error) {
			args := append([]Attrib(nil), X...)
			vTrace = append(vTrace, vCall{idx, args, C})
			if len(vTrace)-1 == vFailAt {
				return nil, fmt.Errorf("verif action error")
			}
			return &vNode{idx, args}, nil
		}
	}
}

// specParse: the LR machine with the recovery rule of C07, on the emitted tables.
func specParse(toks []*token.Token, eof *token.Token, ctx interface{}, failAt int) (out vOutcome) {
	defer func() {
		if r := recover(); r != nil {
			out.Panic = fmt.Sprint("spec machine stuck: ", r)
		}
	}()
	sc := &vScanner{toks: toks, eof: eof}
	states := []int{0}
	attrs := []Attrib{nil}
	tok := sc.Scan()
	errT := token.TokMap.Type("error")
	expected := func(s int) []string {
		var e []string
		for i, a := range actionTab[s].actions {
			if a != nil {
				e = append(e, token.TokMap.Id(token.Type(i)))
			}
		}
		return e
	}
	canShiftErr := func(s int) bool { _, ok := actionTab[s].actions[errT].(shift); return ok }
	for steps := 0; steps < 10000; steps++ {
		top := states[len(states)-1]
		a := actionTab[top].actions[tok.Type]
		if a == nil {
			// error step (C07): topmost state that can shift the error symbol
			offending := tok
			i := len(states) - 1
			for i >= 0 && !canShiftErr(states[i]) {
				i--
			}
			if i < 0 {
				out.ErrTok, out.Expected, out.Calls, out.Scans = offending, expected(top), vCopy(), sc.k
				return
			}
			discarded := append([]Attrib(nil), attrs[i+1:]...)
			states, attrs = states[:i+1], attrs[:i+1]
			target := int(actionTab[states[i]].actions[errT].(shift))
			ea := &parseError.Error{ErrorToken: offending}
			for _, d := range discarded {
				ea.ErrorSymbols = append(ea.ErrorSymbols, d)
			}
			states, attrs = append(states, target), append(attrs, ea)
			for actionTab[target].actions[tok.Type] == nil && tok.Type != token.EOF {
				tok = sc.Scan()
			}
			if actionTab[target].actions[tok.Type] == nil {
				out.ErrTok, out.Expected, out.Calls, out.Scans = offending, expected(target), vCopy(), sc.k
				return
			}
			continue
		}
		switch act := a.(type) {
		case accept:
			out.Res, out.ErrNil, out.Calls, out.Scans = attrs[len(attrs)-1], true, vCopy(), sc.k
			return
		case shift:
			states, attrs = append(states, int(act)), append(attrs, tok)
			tok = sc.Scan()
		case reduce:
			prod := productionsTable[int(act)]
			n := prod.NumSymbols
			args := append([]Attrib(nil), attrs[len(attrs)-n:]...)
			vTrace = append(vTrace, vCall{int(act), args, ctx})
			if len(vTrace)-1 == failAt {
				out.ErrTok, out.ActErr, out.Calls, out.Scans = tok, true, vCopy(), sc.k
				out.Expected = expected(states[len(states)-1-n])
				return
			}
			states, attrs = states[:len(states)-n], attrs[:len(attrs)-n]
			g := gotoTab[states[len(states)-1]][prod.NTType]
			if g < 0 {
				panic("no goto")
			}
			states, attrs = append(states, g), append(attrs, &vNode{int(act), args})
		}
	}
	out.Panic = "spec machine did not terminate"
	return
}

func vCopy() []vCall { return append([]vCall(nil), vTrace...) }

func realParse(p *Parser, toks []*token.Token, eof *token.Token, ctx interface{}, failAt int) (out vOutcome) {
	sc := &vScanner{toks: toks, eof: eof}
	vTrace, vFailAt = nil, failAt
	defer func() {
		if r := recover(); r != nil {
			out.Panic = fmt.Sprint(r)
			out.Calls, out.Scans = vCopy(), sc.k
		}
	}()
	p.Context = ctx
	res, err := p.Parse(sc)
	out.Calls, out.Scans = vCopy(), sc.k
	if err == nil {
		out.Res, out.ErrNil = res, true
		return
	}
	e, ok := err.(*parseError.Error)
	if !ok {
		out.Panic = "error is not *errors.Error"
		return
	}
	out.ErrTok, out.Expected, out.ActErr = e.ErrorToken, append([]string(nil), e.ExpectedTokens...), e.Err != nil
	out.errObj = e
	if res != nil {
		out.Panic = "non-nil result together with an error"
	}
	return
}

// treeEq compares results structurally; tokens and error attributes by identity / content.
func treeEq(a, b Attrib) bool {
	switch x := a.(type) {
	case *vNode:
		y, ok := b.(*vNode)
		if !ok || x.Prod != y.Prod || len(x.Kids) != len(y.Kids) {
			return false
		}
		for i := range x.Kids {
			if !treeEq(x.Kids[i], y.Kids[i]) {
				return false
			}
		}
		return true
	case *token.Token:
		y, ok := b.(*token.Token)
		return ok && x == y
	case *parseError.Error:
		y, ok := b.(*parseError.Error)
		if !ok || x.ErrorToken != y.ErrorToken || len(x.ErrorSymbols) != len(y.ErrorSymbols) {
			return false
		}
		for i := range x.ErrorSymbols {
			if !treeEq(x.ErrorSymbols[i], y.ErrorSymbols[i]) {
				return false
			}
		}
		return true
	case nil:
		return b == nil
	}
	return reflect.DeepEqual(a, b)
}

func outcomeDiff(real, spec vOutcome, what string) string {
	if spec.Panic != "" {
		return "" // the tables do not satisfy the viable-stack interface on this input: outside the contract
	}
	if real.Panic != "" {
		return "Parse panicked or misbehaved: " + real.Panic
	}
	if real.ErrNil != spec.ErrNil {
		return fmt.Sprintf("verdict: err==nil is %v, the LR machine gives %v", real.ErrNil, spec.ErrNil)
	}
	if len(real.Calls) != len(spec.Calls) {
		return fmt.Sprintf("%d action calls, the LR machine makes %d", len(real.Calls), len(spec.Calls))
	}
	for i := range real.Calls {
		r, s := real.Calls[i], spec.Calls[i]
		if r.Prod != s.Prod || len(r.Args) != len(s.Args) || r.Ctx != s.Ctx {
			return fmt.Sprintf("action call %d: production %d with %d args (ctx %v), want production %d with %d args (ctx %v)", i, r.Prod, len(r.Args), r.Ctx, s.Prod, len(s.Args), s.Ctx)
		}
		for j := range r.Args {
			if !treeEq(r.Args[j], s.Args[j]) {
				return fmt.Sprintf("action call %d (production %d): argument %d differs", i, r.Prod, j)
			}
		}
	}
	if real.ErrNil {
		if !treeEq(real.Res, spec.Res) {
			return "result differs from the value of the actions over the parse tree"
		}
		return ""
	}
	if real.ActErr != spec.ActErr {
		return fmt.Sprintf("error carries an action error: %v, want %v", real.ActErr, spec.ActErr)
	}
	if real.ErrTok != spec.ErrTok {
		return fmt.Sprintf("error token %v, want %v", real.ErrTok, spec.ErrTok)
	}
	if what != "c03" && strings.Join(real.Expected, ",") != strings.Join(spec.Expected, ",") {
		return fmt.Sprintf("expected tokens %v, want %v", real.Expected, spec.Expected)
	}
	if real.Scans != spec.Scans {
		return fmt.Sprintf("%d tokens scanned, want %d", real.Scans, spec.Scans)
	}
	return ""
}

func mkToks(types []int) []*token.Token {
	var ts []*token.Token
	for i, t := range types {
		ts = append(ts, &token.Token{Type: token.Type(t), Lit: []byte(fmt.Sprintf("t%d", i)), Pos: token.Pos{Offset: i}})
	}
	return ts
}

type vCase struct {
	Seqs   [][]int `json:"seqs"` // inputs fed one after another to ONE parser object; the last one is checked
	FailAt int     `json:"fail_at"`
	// HistFail k > 0: in the history parses the k-th action call returns an error (a parse aborted by a semantic action)
	HistFail int `json:"hist_fail,omitempty"`
}

func runCase(c vCase, what string) string {
	vInstall()
	p := NewParser()
	ctx := &struct{ n int }{7}
	for _, s := range c.Seqs[:len(c.Seqs)-1] {
		h := realParse(p, mkToks(s), &token.Token{Type: token.EOF}, ctx, c.HistFail-1) // history (C16)
		if h.errObj != nil {
			// the returned error belongs to the caller: an application may sort, rewrite or truncate its lists
			// (errors.DescribeExpected rewrites the last element in place); a later Parse must not see that
			for i := range h.errObj.ExpectedTokens {
				h.errObj.ExpectedTokens[i] = "scribbled-by-the-application"
			}
			for i := range h.errObj.ErrorSymbols {
				h.errObj.ErrorSymbols[i] = nil
			}
		}
	}
	last := c.Seqs[len(c.Seqs)-1]
	toks, eof := mkToks(last), &token.Token{Type: token.EOF}
	real := realParse(p, toks, eof, ctx, c.FailAt)
	vTrace = nil
	spec := specParse(toks, eof, ctx, c.FailAt)
	return outcomeDiff(real, spec, what)
}

func TestVerifParse(t *testing.T) {
	mode := os.Getenv("VERIF_PARSE")
	what := os.Getenv("VERIF_PARSE_PROP")
	out := os.Getenv("VERIF_OUT")
	var fails []string
	cases := 0
	do := func(c vCase) {
		cases++
		if m := runCase(c, what); m != "" && len(fails) < 40 {
			b, _ := json.Marshal(c)
			fails = append(fails, string(b)+" "+m)
		}
	}
	switch {
	case strings.HasPrefix(mode, "enum:"):
		var maxLen int
		fmt.Sscanf(mode, "enum:%d", &maxLen)
		var seqs [][]int
		var rec func(cur []int)
		rec = func(cur []int) {
			seqs = append(seqs, append([]int(nil), cur...))
			if len(cur) == maxLen {
				return
			}
			for tt := 2; tt < numSymbols; tt++ { // all terminals except INVALID(0)/EOF(1), incl. "error"/"empty" if they are terminals
				rec(append(cur, tt))
			}
			if len(cur) < maxLen-1 {
				rec(append(cur, 0)) // an INVALID token
			}
		}
		rec(nil)
		for _, s := range seqs {
			do(vCase{Seqs: [][]int{s}, FailAt: -1})
			if what == "c03" {
				for f := 0; f < 3; f++ {
					do(vCase{Seqs: [][]int{s}, FailAt: f})
				}
			}
		}
		if what == "c16" {
			// histories: every short input (succeeding, failing, recovering, failing action) before every short input
			var hist [][]int
			for _, s := range seqs {
				if len(s) <= maxLen-1 {
					hist = append(hist, s)
				}
			}
			for _, h := range hist {
				for _, s := range hist {
					do(vCase{Seqs: [][]int{h, s}, FailAt: -1})
				}
			}
			// histories (up to the full length) aborted by their first / second semantic action
			for _, h := range seqs {
				for hf := 1; hf <= 2; hf++ {
					vInstall()
					if n := len(realParse(NewParser(), mkToks(h), &token.Token{Type: token.EOF}, nil, -1).Calls); n < hf {
						continue // the history makes fewer action calls
					}
					for _, s := range hist {
						do(vCase{Seqs: [][]int{h, s}, FailAt: -1, HistFail: hf})
					}
				}
			}
		}
	case strings.HasPrefix(mode, "replay:"):
		var c vCase
		if err := json.Unmarshal([]byte(mode[len("replay:"):]), &c); err != nil {
			t.Fatal(err)
		}
		do(c)
	default:
		t.Skip("VERIF_PARSE not set")
	}
	b, _ := json.Marshal(map[string]interface{}{"cases": cases, "fails": fails})
	if out != "" {
		os.WriteFile(out, b, 0o644)
	}
	fmt.Println("VERIF-RESULT", string(b))
}
