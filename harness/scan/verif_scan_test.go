package lexer

// Bounded stand-in / replay oracle for the Scan contract (C01 run-time half, C08, C16-lexer).
// Copied into the lexer package of an expanded carrier (a scratch module), never into /repo.
// The oracle is written from the property text: positions by direct recurrence over the input,
// the token by the DFA-run specification of DESIGN 3.3 evaluated on TransTab/ActTab.

import (
	"encoding/json"
	"fmt"
	"os"
	"strings"
	"testing"
	"unicode/utf8"

	"gen/token"
)

type specTok struct {
	Type          token.Type
	Start, End    int // lexeme = src[Start:End]
	Line, Col     int
	NewPos        int
	NewLine, NewC int
}

func advance(r rune, line, col int) (int, int) {
	switch r {
	case '\n':
		return line + 1, 1
	case '\r':
		return line, 1
	case '\t':
		return line, col + 4
	}
	return line, col + 1
}

// lineCol computes line/column of byte offset p by the recurrence of C08 from the start of src.
func lineCol(src []byte, p int) (int, int) {
	line, col := 1, 1
	for q := 0; q < p; {
		r, sz := utf8.DecodeRune(src[q:])
		line, col = advance(r, line, col)
		q += sz
	}
	return line, col
}

// specScan is the specification of one Scan call started at boundary p0.
func specScan(src []byte, p0 int) specTok {
	n := len(src)
	start := p0
	for {
		if start >= n {
			l, c := lineCol(src, n)
			return specTok{Type: token.EOF, Start: n, End: n, Line: l, Col: c, NewPos: n, NewLine: l, NewC: c}
		}
		state, p := 0, start
		ignored := false
		for {
			if p >= n {
				break
			}
			r, sz := utf8.DecodeRune(src[p:])
			next := TransTab[state](r)
			if next == -1 {
				break
			}
			state, p = next, p+sz
			if ActTab[state].Accept == -1 { // an ignored lexeme is complete: skip it at once
				ignored = true
				break
			}
		}
		if ignored {
			start = p
			continue
		}
		var t specTok
		t.Start = start
		t.Line, t.Col = lineCol(src, start)
		if p > start && ActTab[state].Accept >= 2 {
			t.Type, t.End = ActTab[state].Accept, p
		} else {
			t.Type = token.INVALID
			t.End = p
			if p < n {
				_, sz := utf8.DecodeRune(src[p:])
				t.End = p + sz
			}
		}
		t.NewPos = t.End
		t.NewLine, t.NewC = lineCol(src, t.NewPos)
		return t
	}
}

// checkReset (C16): a lexer after Reset returns the same tokens with the same positions as a fresh lexer.
func checkReset(src []byte, history int) string {
	used := NewLexer(src)
	for i := 0; i < history; i++ {
		used.Scan()
	}
	used.Reset()
	fresh := NewLexer(src)
	for step := 0; step < len(src)+2; step++ {
		a, b := used.Scan(), fresh.Scan()
		if a.Type != b.Type || a.Pos.Offset != b.Pos.Offset || a.Pos.Line != b.Pos.Line || a.Pos.Column != b.Pos.Column || string(a.Lit) != string(b.Lit) {
			return fmt.Sprintf("after %d scans and Reset, token %d is (%d,%q,%d:%d:%d); a fresh lexer gives (%d,%q,%d:%d:%d)", history, step,
				a.Type, a.Lit, a.Pos.Offset, a.Pos.Line, a.Pos.Column, b.Type, b.Lit, b.Pos.Offset, b.Pos.Line, b.Pos.Column)
		}
	}
	return ""
}

// what selects the clauses compared: "c01" token type and extent, "c08" positions, literal bytes and cursor.
func checkInput(src []byte, what string) string {
	l := NewLexer(src)
	p := 0
	for step := 0; step < len(src)+3; step++ {
		want := specScan(src, p)
		tok := l.Scan()
		if what == "c01" && (tok.Type != want.Type || tok.Pos.Offset != want.Start || len(tok.Lit) != want.End-want.Start || l.pos != want.NewPos) {
			return fmt.Sprintf("step %d: token (type %d, [%d,%d), cursor %d), the lexical rules give (type %d, [%d,%d), cursor %d)", step, tok.Type, tok.Pos.Offset, tok.Pos.Offset+len(tok.Lit), l.pos, want.Type, want.Start, want.End, want.NewPos)
		}
		if what == "c01" {
			p = want.NewPos
			continue
		}
		if false {
			return fmt.Sprintf("step %d: type %d, want %d (lexeme %q)", step, tok.Type, want.Type, src[want.Start:want.End])
		}
		if tok.Pos.Offset != want.Start || tok.Pos.Line != want.Line || tok.Pos.Column != want.Col {
			return fmt.Sprintf("step %d: position (%d,%d,%d), want (%d,%d,%d)", step, tok.Pos.Offset, tok.Pos.Line, tok.Pos.Column, want.Start, want.Line, want.Col)
		}
		if string(tok.Lit) != string(src[want.Start:want.End]) {
			return fmt.Sprintf("step %d: literal %q, want %q", step, tok.Lit, src[want.Start:want.End])
		}
		if l.pos != want.NewPos || l.line != want.NewLine || l.column != want.NewC {
			return fmt.Sprintf("step %d: cursor (%d,%d,%d), want (%d,%d,%d)", step, l.pos, l.line, l.column, want.NewPos, want.NewLine, want.NewC)
		}
		p = want.NewPos
	}
	return ""
}

func TestVerifScan(t *testing.T) {
	mode := os.Getenv("VERIF_SCAN")
	out := os.Getenv("VERIF_OUT")
	var fails []string
	cases := 0
	what := os.Getenv("VERIF_SCAN_PROP")
	check := func(src []byte, history int) string {
		if what == "c16" {
			return checkReset(src, history)
		}
		return checkInput(src, what)
	}
	run := func(src []byte) {
		hs := []int{0}
		if what == "c16" {
			hs = []int{1, 2, 3}
		}
		for _, h := range hs {
			cases++
			if m := check(src, h); m != "" && len(fails) < 40 {
				b, _ := json.Marshal(map[string]interface{}{"src": fmt.Sprintf("%x", src), "history": h})
				fails = append(fails, string(b)+" "+m)
			}
		}
	}
	switch {
	case strings.HasPrefix(mode, "enum:"):
		// enum:<maxlen>:<alphabet as hex bytes>
		var maxLen int
		var alpha string
		fmt.Sscanf(mode, "enum:%d:%s", &maxLen, &alpha)
		var ab []byte
		fmt.Sscanf(alpha, "%x", &ab)
		var rec func(cur []byte)
		rec = func(cur []byte) {
			run(append([]byte(nil), cur...))
			if len(cur) == maxLen {
				return
			}
			for _, b := range ab {
				rec(append(cur, b))
			}
		}
		rec(nil)
	case strings.HasPrefix(mode, "replay:"):
		var c struct {
			Src     string `json:"src"`
			History int    `json:"history"`
		}
		if err := json.Unmarshal([]byte(mode[len("replay:"):]), &c); err != nil {
			t.Fatal(err)
		}
		var src []byte
		fmt.Sscanf(c.Src, "%x", &src)
		cases = 1
		if m := check(src, c.History); m != "" {
			fails = append(fails, mode[len("replay:"):]+" "+m)
		}
	default:
		t.Skip("VERIF_SCAN not set")
	}
	b, _ := json.Marshal(map[string]interface{}{"cases": cases, "fails": fails})
	if out != "" {
		os.WriteFile(out, b, 0o644)
	}
	fmt.Println("VERIF-RESULT", string(b))
}
