package gen_test

// Bounded stand-in for C17: goroutines with their own lexer and parser objects run concurrently under the race
// detector; every goroutine must obtain what a sequential run obtains. The interleavings are whatever the Go
// scheduler produces - a sample, not an exploration. Copied into an expanded carrier.

import (
	"encoding/json"
	"fmt"
	"os"
	"sync"
	"testing"

	"gen/lexer"
	"gen/parser"
)

var vcInputs = []string{
	"a = 1 + b ;", "a = ( 1 + ( b ) ) ; c = d ;", "a = ;", "= = ;", "a = 1 + ; b = 2 ;", "", "a", "a = 1 ? ;", "( ; ) ; a = b ;",
	"a = 1 +", "x = y + z + 1 ; ; ;", "a = ( ( ( 1 ) ) ) ;",
}

func vcRun(src string) string {
	l := lexer.NewLexer([]byte(src))
	p := parser.NewParser()
	res, err := p.Parse(l)
	if err != nil {
		return "error: " + err.Error()
	}
	return fmt.Sprintf("ok: %v", res)
}

func TestVerifConc(t *testing.T) {
	out := os.Getenv("VERIF_OUT")
	if os.Getenv("VERIF_CONC") == "" {
		t.Skip("VERIF_CONC not set")
	}
	want := map[string]string{}
	for _, s := range vcInputs {
		want[s] = vcRun(s)
	}
	var mu sync.Mutex
	var fails []string
	cases := 0
	var wg sync.WaitGroup
	for g := 0; g < 16; g++ {
		wg.Add(1)
		go func(g int) {
			defer wg.Done()
			for round := 0; round < 20; round++ {
				for i := range vcInputs {
					s := vcInputs[(i+g)%len(vcInputs)]
					got := vcRun(s)
					mu.Lock()
					cases++
					if got != want[s] && len(fails) < 10 {
						b, _ := json.Marshal(map[string]string{"input": s})
						fails = append(fails, string(b)+fmt.Sprintf(" goroutine %d got %q, alone it gets %q", g, got, want[s]))
					}
					mu.Unlock()
				}
			}
		}(g)
	}
	wg.Wait()
	b, _ := json.Marshal(map[string]interface{}{"cases": cases, "fails": fails})
	if out != "" {
		os.WriteFile(out, b, 0o644)
	}
	fmt.Println("VERIF-RESULT", string(b))
}
