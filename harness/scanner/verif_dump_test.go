package scanner

// Dumps the tokens of grammar files as the real front-end scanner sees them (type name, offset, literal), for the
// respelling check of C13. Injected with `go test -overlay`; never written into /repo.

import (
	"encoding/json"
	"os"
	"strings"
	"testing"

	"github.com/goccmack/gocc/internal/frontend/token"
)

func TestVerifDumpTokens(t *testing.T) {
	files := os.Getenv("VERIF_SCAN_FILES")
	out := os.Getenv("VERIF_OUT")
	if files == "" {
		t.Skip("VERIF_SCAN_FILES not set")
	}
	type tk struct {
		Type   string `json:"type"`
		Offset int    `json:"offset"`
		Lit    string `json:"lit"`
	}
	res := map[string]interface{}{}
	n := 0
	for _, f := range strings.Split(files, ",") {
		src, err := os.ReadFile(f)
		if err != nil {
			continue
		}
		s := &Scanner{}
		s.Init(src, token.FRONTENDTokens)
		var toks []tk
		for {
			tok, pos := s.Scan()
			if tok.Type == token.EOF {
				break
			}
			toks = append(toks, tk{token.FRONTENDTokens.TokenString(tok.Type), pos.Offset, string(tok.Lit)})
			if len(toks) > 100000 {
				break
			}
		}
		res[f] = map[string]interface{}{"tokens": toks, "errors": s.ErrorCount}
		n += len(toks)
	}
	res["cases"] = n
	b, _ := json.Marshal(res)
	os.WriteFile(out, b, 0o644)
}
